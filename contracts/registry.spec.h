/* registry.spec.h -- contracts for the handle registry MasterMS<Scalar> (masa_core.cpp): properties C12 (isolation,
 * selection, re-initialisation), C16 (fatal branches leave the registry as it was), C19 (every object the library
 * allocates is owned by exactly one handle: live objects == registered handles), C13/C14 (name comparison).
 * Objects are identities 1..; ms_new / ms_delete are the contract-bearing stand-ins of new X<Scalar>() / delete. */
#ifndef OMAX
#define OMAX 1024
#endif
/* head-room init_mms asks for (objects: two catalogue allocations; handles: the one it may add); overridable for the small-scope refutation pass */
#ifndef OSLACK
#define OSLACK 256
#endif
#ifndef KSLACK
#define KSLACK 4
#endif
_Bool obj_alive[OMAX];           /* allocated and not yet deleted */
int obj_class[OMAX];             /* catalogue class of each object */
int ghost_next_obj;              /* next fresh identity */
int ghost_live;                  /* number of live objects (allocation counter) */
vobj _master_pointer;
VMAP_DECLARE(_master_map)
VVEC_DECLARE_WITH_BODY(anim)
void _master_map_clear(void)
__CPROVER_assigns(_master_map_size, __CPROVER_object_whole(_master_map_present))
__CPROVER_ensures(_master_map_size == 0)
__CPROVER_ensures(__CPROVER_forall { int mc; (0 <= mc && mc < KMAX) ==> !_master_map_present[mc] })
;
/* mmsname stored by the constructor of each catalogue class (arbitrary but fixed; non-emptiness is a C14 obligation) */
vkey class_name[NCAT_MAX];
#define OBJ_NAME(o) class_name[obj_class[o]]
#define KEY_EMPTY 0
vkey __CPROVER_uninterpreted_masa_map(vkey);      /* normal form computed by masa_map (C13) */
#define MASA_MAP(k) __CPROVER_uninterpreted_masa_map(k)

vobj ms_new(int cls)
__CPROVER_requires(1 <= ghost_next_obj && ghost_next_obj < OMAX - 1 && 0 <= cls && cls < NCAT_MAX && 0 <= ghost_live && ghost_live < OMAX)
__CPROVER_assigns(ghost_next_obj, ghost_live, obj_alive[ghost_next_obj], obj_class[ghost_next_obj])
__CPROVER_ensures(__CPROVER_return_value == __CPROVER_old(ghost_next_obj) && ghost_next_obj == __CPROVER_old(ghost_next_obj) + 1)
__CPROVER_ensures(obj_alive[__CPROVER_return_value] && obj_class[__CPROVER_return_value] == cls && ghost_live == __CPROVER_old(ghost_live) + 1)
{ vobj o = ghost_next_obj; obj_alive[o] = 1; obj_class[o] = cls; ghost_next_obj = o + 1; ghost_live = ghost_live + 1; return o; }   /* reference body (used where the call is not replaced by the contract) */
void ms_delete(vobj o)
__CPROVER_requires(1 <= o && o < OMAX && obj_alive[o])      /* deleting a dead object would be a double free (C19) */
__CPROVER_assigns(ghost_live, obj_alive[o])
__CPROVER_ensures(!obj_alive[o] && ghost_live == __CPROVER_old(ghost_live) - 1)
{ obj_alive[o] = 0; ghost_live = ghost_live - 1; }

/* representation invariant: every handle owns a live object, distinct handles own distinct objects, and the library holds
 * no other live object (no leak): ghost_live == number of handles */
#define REG_WF_A (1 <= ghost_next_obj && ghost_next_obj < OMAX - 64 && 0 <= _master_map_size && _master_map_size < KMAX - 1 && ghost_live == _master_map_size && \
   (_master_pointer == 0 || (1 <= _master_pointer && _master_pointer < ghost_next_obj && obj_alive[_master_pointer])))
#define REG_WF_B (_master_map_size == 0 ==> (__CPROVER_forall { int g0; (0 <= g0 && g0 < KMAX) ==> !_master_map_present[g0] }))
#define REG_WF_C (__CPROVER_forall { int g1; (0 <= g1 && g1 < KMAX && _master_map_present[g1]) ==> (1 <= _master_map_val[g1] && _master_map_val[g1] < ghost_next_obj && obj_alive[_master_map_val[g1]] && \
         0 <= obj_class[_master_map_val[g1]] && obj_class[_master_map_val[g1]] < NCAT_MAX) })
#define REG_WF_D (__CPROVER_forall { int g2; __CPROVER_forall { int g3; (0 <= g2 && g2 < KMAX && 0 <= g3 && g3 < KMAX && g2 != g3 && _master_map_present[g2] && _master_map_present[g3]) \
        ==> _master_map_val[g2] != _master_map_val[g3] } })
#define REG_WF (REG_WF_A && REG_WF_B && REG_WF_C && REG_WF_D)
#define ENSURES_REG_WF __CPROVER_ensures(REG_WF_A) __CPROVER_ensures(REG_WF_B) __CPROVER_ensures(REG_WF_C) __CPROVER_ensures(REG_WF_D)
#define CLASSES_OK (__CPROVER_forall { int c1; (0 <= c1 && c1 < NCAT_MAX) ==> class_name[c1] != KEY_EMPTY })
#define MSG_FATAL(m) (((m) & 4) != 0)

/* ---- get_list_mms: one fresh object per catalogue entry, in order, nothing else touched ---- */
#define CONTRACT_reg__get_list_mms \
  __CPROVER_requires(anim_n == 0 && 1 <= ghost_next_obj && ghost_next_obj < OMAX - 64 && 0 <= ghost_live && ghost_live < OMAX - 64) \
  __CPROVER_assigns(anim_n, __CPROVER_object_whole(anim_p), ghost_next_obj, ghost_live, __CPROVER_object_whole(obj_alive), __CPROVER_object_whole(obj_class)) \
  __CPROVER_ensures(__CPROVER_return_value == 0 && anim_n == NCAT && ghost_next_obj == __CPROVER_old(ghost_next_obj) + NCAT && ghost_live == __CPROVER_old(ghost_live) + NCAT) \
  __CPROVER_ensures(__CPROVER_forall { int l1; (0 <= l1 && l1 < NCAT) ==> (anim_p[l1] == __CPROVER_old(ghost_next_obj) + l1 && obj_alive[anim_p[l1]] && obj_class[anim_p[l1]] == CAT[l1]) }) \
  __CPROVER_ensures(__CPROVER_forall { int l2; (0 <= l2 && l2 < __CPROVER_old(ghost_next_obj)) ==> (obj_alive[l2] == __CPROVER_old(obj_alive)[l2] && obj_class[l2] == __CPROVER_old(obj_class)[l2]) })

/* ---- select_mms: known handle -> selected, nothing else changes; unknown -> fatal, nothing changes ---- */
#define REQ_reg__select_mms(my_name) (REG_WF && KEY_OK(my_name) && ghost_exit == 0)
#define CONTRACT_reg__select_mms \
  __CPROVER_requires(REQ_reg__select_mms(my_name)) \
  __CPROVER_assigns(ghost_msg) \
  __CPROVER_assigns(_master_map_present[my_name]: _master_pointer) \
  __CPROVER_assigns(!_master_map_present[my_name]: ghost_exit) \
  __CPROVER_ensures(_master_map_present[my_name] ? (_master_pointer == _master_map_val[my_name] && ghost_exit == 0) \
                                                 : (ghost_exit == 1001 && MSG_FATAL(ghost_msg))) \
  ENSURES_REG_WF

#define CONTRACT_reg__list_mms \
  __CPROVER_requires(REG_WF) __CPROVER_assigns(ghost_msg) \
  __CPROVER_ensures((ghost_msg & __CPROVER_old(ghost_msg)) == __CPROVER_old(ghost_msg))
#define LOOP_reg__list_mms_1 \
  __CPROVER_assigns(iter, str, ghost_msg) \
  __CPROVER_loop_invariant(0 <= iter && iter <= VEND && (iter < VEND ==> _master_map_present[iter])) \
  __CPROVER_loop_invariant((ghost_msg & __CPROVER_loop_entry(ghost_msg)) == __CPROVER_loop_entry(ghost_msg)) __CPROVER_decreases(VEND - iter)

/* ---- init_mms ---- */
vkey ghost_norm;   /* == masa_map(masa_name), named once so that quantified clauses contain no call */
#define MATCHES(c) (class_name[c] == ghost_norm)
int ghost_e;         /* arbitrary catalogue index (ghost constant): "some entry matches" is stated for it */
_Bool ghost_nomatch; /* ghost hypothesis flag: when set, the caller asserts that no catalogue entry matches */
#define REQ_reg__init_mms(my_name, masa_name) \
  (REG_WF && CLASSES_OK && KEY_OK(my_name) && KEY_OK(masa_name) && ghost_exit == 0 && ghost_norm == MASA_MAP(masa_name) && \
   ghost_next_obj < OMAX - OSLACK && _master_map_size < KMAX - KSLACK && \
   (ghost_nomatch ==> (__CPROVER_forall { int e0; (0 <= e0 && e0 < NCAT) ==> !MATCHES(CAT[e0]) })))
#define CONTRACT_reg__init_mms \
  __CPROVER_requires(REQ_reg__init_mms(my_name, masa_name)) \
  __CPROVER_assigns(ghost_msg, ghost_exit, _master_pointer, anim_n, __CPROVER_object_whole(anim_p), ghost_next_obj, ghost_live, \
                    __CPROVER_object_whole(obj_alive), __CPROVER_object_whole(obj_class), _master_map_present[my_name], _master_map_val[my_name], _master_map_size) \
  /* some entry matches: a fresh object of a matching class is registered under the handle and selected */ \
  __CPROVER_ensures((0 <= ghost_e && ghost_e < NCAT && MATCHES(CAT[ghost_e])) ==> \
        (ghost_exit == 0 && _master_map_present[my_name] && _master_pointer == _master_map_val[my_name] && \
         _master_pointer >= __CPROVER_old(ghost_next_obj) && obj_alive[_master_pointer] && MATCHES(obj_class[_master_pointer]))) \
  /* no entry matches: fatal error, nothing registered, selection unchanged */ \
  __CPROVER_ensures(ghost_nomatch ==> \
        (ghost_exit == 1001 && MSG_FATAL(ghost_msg) && _master_pointer == __CPROVER_old(_master_pointer) && \
         _master_map_present[my_name] == __CPROVER_old(_master_map_present[my_name]) && _master_map_val[my_name] == __CPROVER_old(_master_map_val[my_name]) && \
         _master_map_size == __CPROVER_old(_master_map_size))) \
  ENSURES_REG_WF
#define CAND_SLICE __CPROVER_object_upto(&obj_alive[anim_p[0]], NCAT)     /* liveness flags of the NCAT candidates only */
/* single scan: the first matching candidate is kept in `selected`, every other candidate is released */
#define LOOP_reg__init_mms_1 \
  __CPROVER_assigns(i, selected, ghost_live, ghost_msg, ghost_exit, CAND_SLICE) \
  __CPROVER_loop_invariant(0 <= i && i <= anim_n && anim_n == NCAT && ghost_exit == 0) \
  __CPROVER_loop_invariant(ghost_live == __CPROVER_loop_entry(ghost_live) - i + (selected != 0 ? 1 : 0)) \
  __CPROVER_loop_invariant(selected == 0 || (anim_p[0] <= selected && selected < anim_p[0] + i && obj_alive[selected] && \
                                             0 <= obj_class[selected] && obj_class[selected] < NCAT_MAX && MATCHES(obj_class[selected]))) \
  __CPROVER_loop_invariant(__CPROVER_forall { int i1; (0 <= i1 && i1 < i && anim_p[i1] != selected) ==> !obj_alive[anim_p[i1]] }) \
  __CPROVER_loop_invariant(ghost_nomatch ==> selected == 0) \
  __CPROVER_loop_invariant(selected == 0 ==> (__CPROVER_forall { int i4; (0 <= i4 && i4 < i) ==> !MATCHES(obj_class[anim_p[i4]]) })) \
  __CPROVER_loop_invariant(__CPROVER_forall { int i2; (i <= i2 && i2 < NCAT) ==> obj_alive[anim_p[i2]] }) \
  __CPROVER_decreases(anim_n - i)

/* ---- masa_printid: allocates and releases the whole catalogue ---- */
#define CONTRACT_reg__masa_printid \
  __CPROVER_requires(1 <= ghost_next_obj && ghost_next_obj < OMAX - 64 && 0 <= ghost_live && ghost_live < OMAX - 64) \
  __CPROVER_assigns(ghost_msg, anim_n, __CPROVER_object_whole(anim_p), ghost_next_obj, ghost_live, __CPROVER_object_whole(obj_alive), __CPROVER_object_whole(obj_class)) \
  __CPROVER_ensures(__CPROVER_return_value == 0 && ghost_live == __CPROVER_old(ghost_live)) \
  __CPROVER_ensures(__CPROVER_forall { int d1; (0 <= d1 && d1 < __CPROVER_old(ghost_next_obj)) ==> obj_alive[d1] == __CPROVER_old(obj_alive)[d1] })
#define LOOP_reg__masa_printid_1 \
  __CPROVER_assigns(it, ghost_msg, ghost_live, __CPROVER_object_whole(obj_alive)) \
  __CPROVER_loop_invariant(0 <= it && it <= anim_n && anim_n == NCAT) \
  __CPROVER_loop_invariant(ghost_live == __CPROVER_loop_entry(ghost_live) - it) \
  __CPROVER_loop_invariant(__CPROVER_forall { int d2; (it <= d2 && d2 < NCAT) ==> obj_alive[anim_p[d2]] }) \
  __CPROVER_loop_invariant(__CPROVER_forall { int d3; (0 <= d3 && d3 < OMAX && (d3 < anim_p[0] || d3 >= anim_p[0] + NCAT)) ==> obj_alive[d3] == __CPROVER_loop_entry(obj_alive)[d3] }) \
  __CPROVER_decreases(anim_n - it)

/* ---- ~MasterMS: releases every owned object ---- */
#define CONTRACT_reg__dtor \
  __CPROVER_requires(REG_WF) \
  __CPROVER_assigns(ghost_live, __CPROVER_object_whole(obj_alive), _master_map_size, __CPROVER_object_whole(_master_map_present)) \
  __CPROVER_ensures(_master_map_size == 0) \
  __CPROVER_ensures(__CPROVER_forall { int t0; (0 <= t0 && t0 < KMAX && __CPROVER_old(_master_map_present)[t0]) ==> !obj_alive[_master_map_val[t0]] })
#define LOOP_reg__dtor_1 \
  __CPROVER_assigns(iter, ghost_live, __CPROVER_object_whole(obj_alive)) \
  __CPROVER_loop_invariant(0 <= iter && iter <= VEND && (iter < VEND ==> _master_map_present[iter])) \
  __CPROVER_loop_invariant(__CPROVER_forall { int t1; (0 <= t1 && t1 < KMAX && t1 >= iter && _master_map_present[t1]) ==> obj_alive[_master_map_val[t1]] }) \
  __CPROVER_loop_invariant(__CPROVER_forall { int t2; (0 <= t2 && t2 < KMAX && t2 < iter && _master_map_present[t2]) ==> !obj_alive[_master_map_val[t2]] }) \
  __CPROVER_loop_invariant(__CPROVER_loop_entry(ghost_live) - iter <= ghost_live && ghost_live <= __CPROVER_loop_entry(ghost_live)) \
  __CPROVER_decreases(VEND - iter)

/* ---- non-vacuity witnesses: the preconditions hold in concrete registry states (the solvers cannot always find a model of the
 *      quantified invariant within the canary budget).  State 1: empty registry.  State 2: one handle owning one live object. ---- */
static void reg_witness_state(int n_handles, vkey h0)
{
  __CPROVER_assume(__CPROVER_forall { int w1; (0 <= w1 && w1 < KMAX) ==> (_master_map_present[w1] == (n_handles == 1 && w1 == h0)) });
  __CPROVER_assume(__CPROVER_forall { int w2; (0 <= w2 && w2 < NCAT_MAX) ==> class_name[w2] == w2 + 1 });
  __CPROVER_assume(_master_map_size == n_handles && ghost_live == n_handles && ghost_next_obj == 1 + n_handles && ghost_exit == 0);
  __CPROVER_assume(n_handles == 0 ? _master_pointer == 0 : (_master_pointer == 1 && _master_map_val[h0] == 1 && obj_alive[1] && obj_class[1] == 3));
}
void reg_witness(void)
{
  int n; vkey h0, h, nm;
  __CPROVER_assume((n == 0 || n == 1) && KEY_OK(h0) && KEY_OK(h) && KEY_OK(nm) && ghost_norm == MASA_MAP(nm) && !ghost_nomatch);
  reg_witness_state(n, h0);
  __CPROVER_assert(REG_WF_A, "witness: REG_WF_A");
  __CPROVER_assert(REG_WF_B, "witness: REG_WF_B");
  __CPROVER_assert(REG_WF_C, "witness: REG_WF_C");
  __CPROVER_assert(REG_WF_D, "witness: REG_WF_D");
  __CPROVER_assert(CLASSES_OK, "witness: CLASSES_OK");
  __CPROVER_assert(REQ_reg__init_mms(h, nm), "witness: precondition of init_mms");
  __CPROVER_assert(REQ_reg__select_mms(h), "witness: precondition of select_mms");
  __CPROVER_assert(0, "canary");
}
