"""ctorcheck.py -- per-class constructor / init_var obligations (C11, C14). Placeholder until built."""
def run_ctor_checks(rep, d, tier, only=None):
    return 0, [], [], ['per-class constructor/init_var obligations: not built yet']
