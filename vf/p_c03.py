"""C03 compressible Navier-Stokes family (constant-viscosity classes): units and runner.
The power-law solution (nsctpl) is a separate unit set and is not listed here."""
import os
from numeric import Unit, run_numeric, replay_file

CLASSES = [('navierstokes_2d_compressible', 'cns.cpp'),
           ('navierstokes_3d_compressible', 'cns.cpp'),
           ('axi_cns', 'axi_cns.cpp'),                      # mmsname "axisymmetric_navierstokes_compressible"
           ('axi_cns_transient', 'axi_cns_transient.cpp')]

def units(select=r'^eval_(q|exact)_', classes=CLASSES, extra=None, tag='', key_suffix='.contract'):
    extra = extra or {}
    return [Unit(cls, src, 'cns.spec.h', defines=['UNIT_%s 1' % cls] + extra.get(cls, []), select=select, tag=tag, key_suffix=key_suffix)
            for cls, src in classes]

def pinned_units():
    """as-coded characterisation of the six KNOWN FINDINGS (axisymmetric viscous sources): the code must still equal the
    recorded deviant operator (tau_rz = mu u_z, no hoop stress, axi_cns energy with +div(tau.u)); any OTHER change to these
    functions fails `<function>.as_coded` and is reported as a new violation instead of hiding behind the known finding."""
    d = ['CNS_DIAG_AXI_AS_CODED 1']
    extra = {'axi_cns': d + ['DIAG_WORK_SIGN (-1)'], 'axi_cns_transient': d + ['DIAG_WORK_SIGN 1']}
    return units(select=r'^eval_q_(rho_u|rho_w|rho_e|u|w|e)$', classes=CLASSES[2:], extra=extra, tag='@as_coded', key_suffix='.as_coded')

def run(tier, seed):
    import p_c03n
    return run_numeric('C03', units() + pinned_units() + p_c03n.units('c03'), tier, seed, design_ref='4/C03',
                       lemmas=['lemma_energy_forms', 'lemma_jinv_forms', 'lemma_cyl_div'], trusted_extra=p_c03n.TRUSTED)

def run_diag(tier='quick', seed=1):
    """NOT a check of C03 and never called by ./check: proves that the axisymmetric sources equal the *as-coded* operator
    (tau_rz = mu u_z, no hoop stress, axi_cns energy with +div(tau.u)) described in contracts/cns.spec.h under
    CNS_DIAG_AXI_AS_CODED, to characterise the defect that ./check C03 reports.  Usage:
      cd /verif && python3 -c "import sys; sys.path.insert(0,'vf'); import p_c03; sys.exit(p_c03.run_diag())"
    Writes evidence/C03diag.json (delete afterwards)."""
    os.chdir(os.path.dirname(os.path.dirname(os.path.abspath(__file__))))
    d = ['CNS_DIAG_AXI_AS_CODED 1']
    extra = {'axi_cns': d + ['DIAG_WORK_SIGN (-1)'], 'axi_cns_transient': d + ['DIAG_WORK_SIGN 1']}
    return run_numeric('C03diag', units(select=r'^eval_q_', classes=CLASSES[2:], extra=extra), tier, seed, design_ref='4/C03')

replay = replay_file
