/* real.h -- CBMC prelude for numeric units: exact real arithmetic + assumed libm axioms.
 *
 * Everything in this file is part of the TRUSTED BASE (DESIGN.md section 3.2 / 6):
 *   - Scalar arithmetic is exact rational/real arithmetic (__CPROVER_rational, SMT Real);
 *   - cos/sin/exp/... are uninterpreted functions (congruence only) constrained by
 *     the axioms below (sin^2+cos^2=1, cos 0=1, sin 0=0, a*inv(a)=1, sqrt(a)^2=a, exp>0); each is true of the real function on the stated domain;
 *   - x / y is x * inv(y) with y*inv(y)==1 (paths with y==0 are excluded: every
 *     denominator is an admissibility precondition).
 * The same names are implemented natively (long double + libm) in native.h.
 */
#ifndef VF_REAL_H
#define VF_REAL_H
#define VF_CBMC 1
typedef __CPROVER_rational Sc;

Sc __CPROVER_uninterpreted_cos(Sc);
Sc __CPROVER_uninterpreted_sin(Sc);
Sc __CPROVER_uninterpreted_inv(Sc);
Sc __CPROVER_uninterpreted_sqrt(Sc);
Sc __CPROVER_uninterpreted_exp(Sc);
Sc __CPROVER_uninterpreted_log(Sc);
Sc __CPROVER_uninterpreted_tanh(Sc);
Sc __CPROVER_uninterpreted_asin(Sc);
Sc __CPROVER_uninterpreted_acos(Sc);
Sc __CPROVER_uninterpreted_atan(Sc);
Sc __CPROVER_uninterpreted_erf(Sc);
Sc __CPROVER_uninterpreted_pow(Sc, Sc);

/* ghost observables (rule O / X): message class bits and exit code */
int ghost_msg;      /* 1 = other text, 2 = ERROR text, 4 = FATAL text */
int ghost_exit;     /* 0 = masa_exit not called; else 1000+code */
int ghost_nan;      /* quiet_NaN sentinel returned */
#define GHOST_MSG(c) (ghost_msg |= (c))
#define GHOST_EXIT(c) (ghost_exit = 1000 + (c))

static Sc LITf(long n, long d) { Sc a = n; Sc b = d; return a / b; }
/* a negative literal is the negation of the positive one (same value; CBMC 6.11's constant folder crashes on negative non-integer rationals) */
#define LIT(n, d) ((n) < 0 ? -LITf(-(n), (d)) : LITf((n), (d)))
#define SCAST(x) (x)

static Sc vcos(Sc a) { Sc c = __CPROVER_uninterpreted_cos(a), s = __CPROVER_uninterpreted_sin(a); __CPROVER_assume(c * c + s * s == 1); __CPROVER_assume(a != 0 || (c == 1 && s == 0)); return c; }
static Sc vsin(Sc a) { Sc c = __CPROVER_uninterpreted_cos(a), s = __CPROVER_uninterpreted_sin(a); __CPROVER_assume(c * c + s * s == 1); __CPROVER_assume(a != 0 || (c == 1 && s == 0)); return s; }
static Sc vinv(Sc a) { Sc i = __CPROVER_uninterpreted_inv(a); __CPROVER_assume(a * i == 1); return i; }
static Sc vsqrt(Sc a) { Sc r = __CPROVER_uninterpreted_sqrt(a); __CPROVER_assume(r * r == a && r >= 0); return r; }
static Sc vexp(Sc a) { Sc e = __CPROVER_uninterpreted_exp(a); __CPROVER_assume(e > 0); return e; }
static Sc vlog(Sc a) { return __CPROVER_uninterpreted_log(a); }
static Sc vtanh(Sc a) { return __CPROVER_uninterpreted_tanh(a); }
static Sc vasin(Sc a) { return __CPROVER_uninterpreted_asin(a); }
static Sc vacos(Sc a) { return __CPROVER_uninterpreted_acos(a); }
static Sc vatan(Sc a) { return __CPROVER_uninterpreted_atan(a); }
static Sc verf(Sc a) { return __CPROVER_uninterpreted_erf(a); }
static Sc vabs(Sc a) { Sc z = 0; return a < z ? z - a : a; }

/* pow: exact product / reciprocal for integer exponents in [-8,24]; UF otherwise */
static Sc vpowi(Sc b, int n)
{
  Sc r = 1;
  if (n >= 0) { if (n >= 1) r = r * b; if (n >= 2) r = r * b; if (n >= 3) r = r * b; if (n >= 4) r = r * b;
                if (n >= 5) r = r * b; if (n >= 6) r = r * b; if (n >= 7) r = r * b; if (n >= 8) r = r * b;
                if (n >= 9) r = r * b; if (n >= 10) r = r * b; if (n >= 11) r = r * b; if (n >= 12) r = r * b;
                if (n >= 13) r = r * b; if (n >= 14) r = r * b; if (n >= 15) r = r * b; if (n >= 16) r = r * b;
                if (n >= 17) r = r * b; if (n >= 18) r = r * b; if (n >= 19) r = r * b; if (n >= 20) r = r * b;
                if (n >= 21) r = r * b; if (n >= 22) r = r * b; if (n >= 23) r = r * b; if (n >= 24) r = r * b; return r; }
  Sc i = vinv(b);
  if (n <= -1) r = r * i; if (n <= -2) r = r * i; if (n <= -3) r = r * i; if (n <= -4) r = r * i;
  if (n <= -5) r = r * i; if (n <= -6) r = r * i; if (n <= -7) r = r * i; if (n <= -8) r = r * i; return r;
}
static Sc vpow(Sc b, Sc e)
{
  if (e == 0) return vpowi(b, 0);  if (e == 1) return vpowi(b, 1);  if (e == 2) return vpowi(b, 2);
  if (e == 3) return vpowi(b, 3);  if (e == 4) return vpowi(b, 4);  if (e == 5) return vpowi(b, 5);
  if (e == 6) return vpowi(b, 6);  if (e == 7) return vpowi(b, 7);  if (e == 8) return vpowi(b, 8);
  if (e == 9) return vpowi(b, 9);  if (e == 10) return vpowi(b, 10); if (e == 11) return vpowi(b, 11);
  if (e == 12) return vpowi(b, 12); if (e == 13) return vpowi(b, 13); if (e == 14) return vpowi(b, 14);
  if (e == 15) return vpowi(b, 15); if (e == 16) return vpowi(b, 16); if (e == 17) return vpowi(b, 17);
  if (e == 18) return vpowi(b, 18); if (e == 19) return vpowi(b, 19); if (e == 20) return vpowi(b, 20);
  if (e == 21) return vpowi(b, 21); if (e == 22) return vpowi(b, 22); if (e == 23) return vpowi(b, 23); if (e == 24) return vpowi(b, 24);
  if (e == -1) return vpowi(b, -1); if (e == -2) return vpowi(b, -2); if (e == -3) return vpowi(b, -3);
  if (e == -4) return vpowi(b, -4); if (e == -5) return vpowi(b, -5); if (e == -6) return vpowi(b, -6);
  if (e == -7) return vpowi(b, -7); if (e == -8) return vpowi(b, -8);
  return __CPROVER_uninterpreted_pow(b, e);
}

Sc __CPROVER_uninterpreted_eps(int);
static Sc VF_EPS(void) { Sc e = __CPROVER_uninterpreted_eps(0); __CPROVER_assume(e > 0); return e; }   /* numeric_limits<Scalar>::epsilon(): some positive constant */
static Sc VF_NAN(void) { ghost_nan = 1; return LITf(0, 1); }                                        /* quiet_NaN(): ghost flag + placeholder value */
/* static members of manufactured_solution<Scalar>: both are acos(Scalar(-1)) (masa_class.cpp:80,83) */
Sc pi, PI;
#define VF_PI_OK (pi == PI)

int __CPROVER_uninterpreted_toint(Sc);
#define VF_TOINT(x) __CPROVER_uninterpreted_toint(x)   /* int(Scalar): some int determined by the value (rule Vtoint) */
/* std::vector operator[] (rule Vidx): the index must lie inside the container */
#ifdef VF_NO_IDX_CHECK
#define VF_IDX(i, n) (i)
#else
#define VF_IDX(i, n) (__CPROVER_assert(0 <= (i) && (i) < (n), "vector index within size()"), (i))
#endif
/* contract vocabulary */
#define REQ(e) __CPROVER_requires(e)
#define ENS_EQ(e) __CPROVER_ensures(__CPROVER_return_value == (e))
#define ENS(e) __CPROVER_ensures(e)
#define RET __CPROVER_return_value
#define FRAME(...) __CPROVER_assigns(__VA_ARGS__)
#define VF_ASSUME(c) __CPROVER_assume(c)
#define VF_ASSERT(c, n) __CPROVER_assert(c, n)
#ifndef true
#define true 1
#define false 0
#endif
#endif
