"""C08 closed-form exact solutions: Sod shock tube (sod.cpp) and conjugate-normal posterior (cp_normal.cpp)."""
import os
from numeric import Unit, run_numeric, replay_file

SOD_JMAX = int(__import__('os').environ.get('SOD_JMAX', '100'))    # both call sites pass JMAX <= 100; the bisection loop is unwound completely up to that bound (unwinding assertions on)

import copy, hashlib
import xtract, loopsplit
from common import SRC


def sod_1d__rtbis_extractor(u):
    """rule S (vf/loopsplit.py): rtbis is split at its loop into prologue / guard / body / epilogue over file-scope copies of its locals;
    func stays as it is.  The while-rule induction is trusted; each part is enforced against its contract."""
    decl, funcs = xtract.extract_class(os.path.join(SRC, u.src), os.path.join(SRC, u.header), u.cls, ghost_capture={'sod_1d__rtbis_4': ['dx']})
    rt = [f for f in funcs if f.name == 'rtbis'][0]
    fn = [f for f in funcs if f.name == 'func'][0]
    scal, ints, parts = loopsplit.split(rt, 'sod_1d__rtbis')
    decl = copy.copy(decl)
    decl.scalars = list(decl.scalars) + scal + ['vf_ret']
    decl.ints = list(decl.ints) + ints + ['vf_returned']
    out = [fn]
    for name in ('prologue', 'guard', 'body', 'epilogue'):
        f = xtract.Func()
        f.name, f.cname, f.args = 'rtbis_' + name, 'sod_1d__rtbis_' + name, []
        f.ret = 'int' if name == 'guard' else 'void'
        f.body_c, f.body_src = parts[name], rt.body_src
        f.sha = rt.sha
        f.hits, f.notes, f.writes_registered, f.calls = dict(rt.hits), ['part of rtbis split by rule S'], [], ['sod_1d__func_1']
        out.append(f)
    u.decl, u.funcs = decl, out


BOUNDED = [('cp_normal__eval_cen_mom_1', 'int -> rational conversion of the symbolic moment order k gives an ill-typed SMT term in CBMC 6.11; contract in contracts/cp_normal_bounded.h; '
                                         'native twin hits every k in 0..20 with random sigma')]


def units():
    us = []
    us.append(Unit('sod_1d', 'sod.cpp', 'sod.spec.h', defines=['UNIT_sod_rtbis 1'], select=r'^rtbis_(prologue|body|epilogue)$', tag='@rtbis',
                   extractor=sod_1d__rtbis_extractor, timeout=120,
                   replace={'sod_1d__rtbis_prologue': ['sod_1d__func_1'], 'sod_1d__rtbis_body': ['sod_1d__func_1'], 'sod_1d__rtbis_epilogue': ['sod_1d__func_1']}))
    us.append(Unit('sod_1d', 'sod.cpp', 'sod.spec.h', defines=['UNIT_sod_eval 1'], select=r'^eval_q_rho(_u)?$', tag='@eval',
                   replace={'sod_1d__eval_q_rho_2': ['sod_1d__rtbis_4'], 'sod_1d__eval_q_rho_u_2': ['sod_1d__rtbis_4']}, timeout=120))
    for n in (1, 3):
        us.append(Unit('cp_normal', 'cp_normal.cpp', 'cp_normal.spec.h', header='smasa.h', defines=['UNIT_cp_normal 1', 'CP_NFIX %d' % n], tag='@n%d' % n,
                       select=r'^eval_(prior|posterior|likelyhood|loglikelyhood|post_var|post_mean)$', extra_cbmc=['--unwind', '10', '--unwinding-assertions'], timeout=120))
    us.append(Unit('cp_normal', 'cp_normal.cpp', 'cp_normal.spec.h', header='smasa.h', defines=['UNIT_cp_normal 1'], tag='@moments',
                   select=r'^eval_cen_mom$', arg_box={'k': (0, 20)}))
    return us

def run(tier, seed):
    return run_numeric('C08', units(), tier, seed, design_ref='4/C08', lemmas=['lemma_sod_rh_mass'], bounded=BOUNDED)

replay = replay_file
