"""C06 reacting Euler (N/N2), euler_chem_1d: units and runner"""
from numeric import Unit, run_numeric, replay_file

def units():
    return [Unit('euler_chem_1d', 'euler_chem.cpp', 'euler_chem.spec.h', defines=['UNIT_euler_chem_1d 1'],
                 select=r'^eval_(q|exact)_')]

def run(tier, seed):
    return run_numeric('C06', units(), tier, seed, design_ref='4/C06',
                       trusted_extra=['the caller-supplied callback K_eq is an uninterpreted function (rule K): obligations hold for every function, '
                                      'assuming only that it is a function of its argument (no side effects, deterministic)'])

replay = replay_file
