"""C02 Euler family: units and runner"""
from numeric import Unit, run_numeric, replay_file

def units():
    us = [Unit('euler_1d', 'euler.cpp', 'euler.spec.h', defines=['UNIT_euler_1d 1'], select=r'^eval_(q|exact)_')]
    return us

def run(tier, seed):
    return run_numeric('C02', units(), tier, seed, design_ref='4/C02')

replay = replay_file
