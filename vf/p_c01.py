"""C01 heat conduction: units and runner"""
from numeric import Unit, run_numeric, replay_file

def units():
    us = []
    for dim in (1, 2, 3):
        for unsteady in (0, 1):
            for var in (0, 1):
                cls = 'heateq_%dd_%s_%s' % (dim, 'unsteady' if unsteady else 'steady', 'var' if var else 'const')
                us.append(Unit(cls, 'heat.cpp', 'heat.spec.h',
                               defines=['HEAT_DIM %d' % dim, 'HEAT_UNSTEADY %d' % unsteady, 'HEAT_VAR %d' % var],
                               select=r'^eval_(q|exact)_t$'))
    return us

def run(tier, seed):
    return run_numeric('C01', units(), tier, seed, design_ref='4/C01')

replay = replay_file
