/* lemmas.c -- small lemma obligations over free real variables that connect the quantities named in the property
 * statements with the forms used inside the big specs (DESIGN.md 3.3). Each lemma_* is its own CBMC entry point. */
#include "real.h"
#include "jets.h"

/* C02/C03: with e_t = p/((Gamma-1) rho) + |u|^2/2 and H = e_t + p/rho (property statement):
 *   rho*e_t = p/(Gamma-1) + rho|u|^2/2   and   rho*H = Gamma p/(Gamma-1) + rho|u|^2/2   (forms used in roy.h) */
void lemma_energy_forms(void)
{
  Sc rho, u, v, w, p, Gamma;
  __CPROVER_assume(rho != 0 && Gamma != 1);
  Sc ke = LIT(1, 2) * (u * u + v * v + w * w);
  Sc ir = vinv(rho), ig = vinv(Gamma - 1);
  Sc et = p * ig * ir + ke;
  Sc H = et + p * ir;
  __CPROVER_assert(rho * et == p * ig + rho * ke, "rho*e_t == p/(Gamma-1) + rho|u|^2/2");
  __CPROVER_assert(rho * H == Gamma * ig * p + rho * ke, "rho*H == Gamma p/(Gamma-1) + rho|u|^2/2");
  __CPROVER_assert(0, "canary");
}

/* the two renderings of the reciprocal jet agree for a != 0 (JINV common denominator vs JINV_PLAIN) */
void lemma_jinv_forms(void)
{
  Sc a_v, a_x, a_y, a_z, a_t, a_xx, a_yy, a_zz, a_xy, a_xz, a_yz;
  __CPROVER_assume(a_v != 0);
  JINV(p, a);
  JINV_PLAIN(q, a);
  __CPROVER_assert(p_v == q_v && p_x == q_x && p_y == q_y && p_z == q_z && p_t == q_t, "first order");
  __CPROVER_assert(p_xx == q_xx && p_yy == q_yy && p_zz == q_zz, "second order diagonal");
  __CPROVER_assert(p_xy == q_xy && p_xz == q_xz && p_yz == q_yz, "second order mixed");
  __CPROVER_assert(0, "canary");
}

/* cylindrical divergence: (1/r) d(r F)/dr + dG/dz == F_r + F/r + G_z for r != 0 (form used by the axisymmetric specs) */
void lemma_cyl_div(void)
{
  Sc r, F, F_r, G_z;
  __CPROVER_assume(r != 0);
  Sc ir = vinv(r);
  /* d(r F)/dr = F + r F_r */
  __CPROVER_assert(ir * (F + r * F_r) + G_z == F_r + F * ir + G_z, "cylindrical divergence expanded");
  __CPROVER_assert(0, "canary");
}

/* C08 Sod: with the shock speed vs = vm / (1 - rhor/rhomr) (as the code and the spec form it) mass is conserved across the shock
 * (Rankine-Hugoniot, frame of the shock, gas at rest ahead):  rhor (0 - vs) == rhomr (vm - vs). */
void lemma_sod_rh_mass(void)
{
  Sc rhor, rhomr, vm;
  __CPROVER_assume(rhomr != 0 && rhomr != rhor);
  Sc vs = vm * vinv(1 - rhor * vinv(rhomr));
  __CPROVER_assert(rhor * (0 - vs) == rhomr * (vm - vs), "Rankine-Hugoniot mass flux across the shock");
  __CPROVER_assert(0, "canary");
}
