#!/usr/bin/env python3
"""regenerates MANIFEST.json from the table below (kept in one place so the manifest stays valid)"""
import json, os
HERE = os.path.dirname(os.path.dirname(os.path.abspath(__file__)))

CLAIMED = {
 'C01': dict(cat='proof', ref='4/C01',
   text='For all parameters and points (real arithmetic): each of the 12 eval_q_t bodies extracted from src/heat.cpp equals rho*cp(T)*T_t - div(k(T) grad T) '
        'computed by jet differentiation of the documented T; eval_exact_t equals T. One discharged postcondition per function covers every '
        'parameter swap the single-point tests cannot see.',
   note='real arithmetic instead of IEEE; cos/sin uninterpreted + sin^2+cos^2=1; extractor rule table; CBMC DFCC + SMT solver',
   tech='CBMC code contracts (goto-instrument --dfcc --enforce-contract) on C extracted mechanically from the C++ source, __CPROVER_rational + SMT portfolio (cvc5/z3)'),

 'C02': dict(cat='proof', ref='4/C02',
   text='For all parameters and points (real arithmetic): every eval_q_* of the 8 Euler-family classes equals the inviscid mass/momentum/total-energy operator (cylindrical for the axisymmetric pair, with time terms for the transient ones) applied by jet differentiation to the same field jets that the eval_exact_* contracts pin to the documented sine/cosine forms; lemma_energy_forms ties the conservative energy forms to e_t and H of the statement.',
   note='real arithmetic instead of IEEE; libm as uninterpreted functions + axioms of lib/real.h; denominators assumed non-zero; extractor rule table; CBMC DFCC + SMT solver', tech='CBMC code contracts (goto-instrument --dfcc --enforce-contract) on C extracted mechanically from the C++ source each run; __CPROVER_rational + SMT portfolio (cvc5/z3); native twin + real-class replay for counterexamples'),
 'C04': dict(cat='proof', ref='4/C04',
   text='laplace_2d eval_q_f == PHI_xx+PHI_yy of the PHI jet eval_exact_phi returns; burgers eval_q_u/v(x,y,t) == U_t+(UU)_x+(UV)_y / V_t+(UV)_x+(VV)_y for the one U,V jet pair that eval_exact_u/v must return (2-argument forms = same jets without the temporal term); the named steady/viscous variants are covered too.',
   note='real arithmetic instead of IEEE; libm as uninterpreted functions + axioms of lib/real.h; denominators assumed non-zero; extractor rule table; CBMC DFCC + SMT solver', tech='CBMC code contracts (goto-instrument --dfcc --enforce-contract) on C extracted mechanically from the C++ source each run; __CPROVER_rational + SMT portfolio (cvc5/z3); native twin + real-class replay for counterexamples'),
 'C06': dict(cat='proof', ref='4/C06',
   text='euler_chem_1d: species sources == (rho_s u)_x - omega_s with Arrhenius forward rates and the caller callback as an uninterpreted function evaluated at the exact temperature (so: for ALL callbacks); second postconditions give source_N + source_N2 == (rho u)_x; momentum and energy sources == residual of the two-species thermally perfect Euler equations; exact fields pinned.',
   note='real arithmetic instead of IEEE; libm as uninterpreted functions + axioms of lib/real.h; denominators assumed non-zero; extractor rule table; CBMC DFCC + SMT solver' + '; N2 gas constant taken as R_N/2 in pressure/translational energy as the code and model comment do', tech='CBMC code contracts (goto-instrument --dfcc --enforce-contract) on C extracted mechanically from the C++ source each run; __CPROVER_rational + SMT portfolio (cvc5/z3); native twin + real-class replay for counterexamples'),
 'C13': dict(cat='proof', ref='4/C13',
   text='Loop-contract proofs (quantified invariants, decreases) that uptolow lower-cases every character, remove_line/remove_whitespace erase only their separator, keep order, leave no separator and introduce no character, and masa_map composes them (no dash, blank or upper-case letter remains) for every string up to 64 characters; plus a bounded stand-in (all strings up to length 7, full equality with the reference filter) that supplies concrete counterexample strings, replayed on the real masa_map.',
   note='std::string find/replace/length/index/copy semantics are contracts in lib/vstr.h (trusted); capacity 64; z3 decides the quantified obligations; the comparison of the normalised name against catalogue names in init_mms is covered by C12/C14 contracts',
   tech='CBMC code contracts + loop contracts (DFCC, --apply-loop-contracts) on C extracted from masa_map.cpp, std::string operations replaced by their contracts; z3; bounded unwinding stand-in labelled bounded'),

 'C03': dict(cat='proof', ref='4/C03',
   text='navierstokes_2d/3d_compressible, axi_cns, axi_cns_transient: every eval_q_* equals the compressible Navier-Stokes residual (Newtonian stress, Fourier flux with T=p/(rho R), total energy; cylindrical for the axisymmetric pair) applied by jet differentiation to the field jets the eval_exact_* contracts pin. Six axisymmetric viscous sources fail this (KNOWN FINDINGS, replayed on the real classes); for them the code is additionally pinned to the recorded as-coded operator so any further change is still reported. The power-law solution (nsctpl) is not yet under contract.',
   note='real arithmetic instead of IEEE; libm as uninterpreted functions + axioms of lib/real.h; denominators assumed non-zero; extractor rule table; CBMC DFCC + SMT solver' + '; navierstokes_4d_compressible_powerlaw not covered yet', tech='CBMC code contracts (goto-instrument --dfcc --enforce-contract) on C extracted mechanically from the C++ source each run; __CPROVER_rational + SMT portfolio (cvc5/z3); native twin + real-class replay for counterexamples'),
 'C07': dict(cat='proof', ref='4/C07',
   text='eval_g_* of euler_1d/2d/3d and navierstokes_2d/3d_compressible == first-derivative components of the same jets as the exact fields for every int index (out of range -> -1, prints only); every masa_eval_grad_* API template forwards to eval_g_<same variable> with the same arguments on the selected object.',
   note='real arithmetic instead of IEEE; libm as uninterpreted functions + axioms of lib/real.h; denominators assumed non-zero; extractor rule table; CBMC DFCC + SMT solver' + '; API layer: virtual dispatch is an uninterpreted call; power-law gradients not covered yet', tech='CBMC code contracts (goto-instrument --dfcc --enforce-contract) on C extracted mechanically from the C++ source each run; __CPROVER_rational + SMT portfolio (cvc5/z3); native twin + real-class replay for counterexamples'),
 'C15': dict(cat='proof', ref='4/C15',
   text='Each of the ~120 inline base-class stubs returns exactly -1.33, sets the (S)MASA ERROR message flag and assigns nothing else (no exit, no parameter); each of the 133 API templates makes exactly one call, on the selected object, to the method the naming convention prescribes, same arity and argument order, and returns its value; selection pointer untouched.',
   note='virtual dispatch to the most derived override and overload resolution are C++ semantics (assumed); stdout text reduced to its message class; CBMC DFCC + SAT', tech='CBMC code contracts (DFCC) on C extracted mechanically from masa_core.cpp / masa_internal.h / cmasa.cpp; outgoing calls as recorded uninterpreted functions; contracts generated from the API naming convention; SAT back end'),
 'C17': dict(cat='proof', ref='4/C17',
   text='Each of the 94 extern "C" wrappers of cmasa.cpp calls exactly the <double> template the naming convention prescribes with its own arguments in order and returns that value (bit-identical doubles up to NaN payload); masa_init_param/masa_sanity_check/masa_get_array return the callee status; masa_get_array copies length and contents (loop contract); masa_set_array builds the vector from the first *n values; masa_get_name copies the string back into the caller buffer.',
   note='templates are uninterpreted functions + ghost call record; std::string/std::vector are opaque handles; caller buffer capacity is an API assumption; masa_test_default (process-terminating test helper) not under contract', tech='CBMC code contracts (DFCC) on C extracted mechanically from masa_core.cpp / masa_internal.h / cmasa.cpp; outgoing calls as recorded uninterpreted functions; contracts generated from the API naming convention; SAT back end'),

 'C05': dict(cat='proof', ref='4/C05',
   text='rans_sa: every helper (du,d2u,dnu,d2nu,chi,fv1,fv2,vt,s,r,g,fw,cw1,production,destruction,transport) proved against its SA definition / jet derivative and eval_q_u, eval_q_v proved modularly against the callee contracts; free-shear FANS-SA: mass source, nu field, exact fields and the two-argument == three-argument(t=0) obligations proved; three free-shear momentum/energy sources are KNOWN FINDINGS (frozen f_v1 derivative, missing rho c_v T_t). 15 functions (rans_sa dvt, free-shear eval_q_nu(x,y,t) and two wrappers, all wall-bounded evaluators) are only BOUNDED: un-weakened contracts compared with the extracted code on 2e4 (thorough 2e6) sampled admissible inputs in long double, never counted as proved.',
   note='real arithmetic instead of IEEE; libm as uninterpreted functions + axioms of lib/real.h; denominators assumed non-zero; extractor rule table; CBMC DFCC + SMT solver' + '; eval_q_u of rans_sa is proved relative to the bounded contract of dvt; bounded stand-ins are sampling, not proof (listed under coverage.bounded)', tech='CBMC code contracts (goto-instrument --dfcc --enforce-contract) on C extracted mechanically from the C++ source each run; __CPROVER_rational + SMT portfolio (cvc5/z3); native twin + real-class replay for counterexamples' + '; bounded stand-in = native twin sampling, labelled bounded'),

 'C11': dict(cat='proof', ref='4/C11',
   text='Representation invariant of the store (names -> indices injective, slots valid and pairwise distinct) is assumed and re-established by the extracted register_var/set_var/get_var/purge_var/sanity_check/register_vec/set_vec/get_vec/display_* of masa_class.cpp, with postconditions that are the per-handle map semantics (set then get, frame on every other parameter, unknown name -> no effect / -20, purge -> all markers, sanity_check 0/1 characterisation, vectors copy length and contents): all histories by induction over the API. Per class (34 classes): constructor + init_var extracted and executed with the extracted store functions from arbitrary parameter values: every name registered once, init_var returns 0 and restores exactly the construction-time values.',
   note='STL containers are contracts (trusted); Scalar* is an address in an abstract heap; capacities 256 names/512 scalars; exact real arithmetic in the store unit, IEEE double in the per-class harnesses; the power-law class (macro-registered ~210 parameters) and the two fixtures are not covered per class',
   tech='CBMC code contracts + loop contracts (DFCC) on C extracted mechanically from masa_class.cpp / masa_core.cpp over the contract-bearing STL interface lib/vstore.h; quantified representation invariants decided by z3 5.1/4.8, one cbmc run per key obligation'),
 'C12': dict(cat='proof', ref='4/C12',
   text='Registry invariant (every handle owns a live object, distinct handles distinct objects, no other live object) is preserved by the extracted init_mms / select_mms; init_mms: a catalogue class whose name equals masa_map(name) -> a fresh object of that class is mapped to exactly this handle and selected, every other handle untouched, a re-used handle gets a fresh object and the old one is released; no match -> fatal, nothing registered; select_mms: known handle selected, unknown fatal, nothing else changes; get_list_mms: one fresh object per entry; list_mms: prints only; ~MasterMS releases every owned object.',
   note='std::map/std::vector contracts trusted; handles/names interned; new/delete as ms_new/ms_delete; masa_map uninterpreted here (C13); per-object parameter isolation = object distinctness + C11 frames; double/long double registries = two instances of the same template; init_mms needs ~6 min (z3)',
   tech='CBMC code contracts + loop contracts (DFCC) on C extracted mechanically from masa_class.cpp / masa_core.cpp over the contract-bearing STL interface lib/vstore.h; quantified representation invariants decided by z3 5.1/4.8, one cbmc run per key obligation'),
 'C14': dict(cat='proof', ref='4/C14',
   text='For 34 catalogue classes: construction registers every name once, sanity_check()==0 and init_var()==0 right after construction, init_var restores all values, the dimension literal equals the documented dimension and the evaluator arities fit it, each mmsname literal is its own masa_map normal form (the extracted masa_map is executed on it) and names are unique; get_list_mms allocates exactly one object per entry. NOT covered: that every documented evaluator returns a finite non-sentinel value at the defaults (floating-point evaluation) and is actually overridden (C++ overload resolution).',
   note='IEEE double, reference container bodies, extracted store functions executed; power-law class and fixtures excluded per class; identical text for both scalar types by template instantiation',
   tech='CBMC on mechanically extracted constructor/init_var/store/masa_map code with constant keys (complete symbolic execution, SAT back end) + DFCC contract of get_list_mms'),
 'C20': dict(cat='proof', ref='4/C20',
   text='41 relational obligations over pairs of extracted classes in one unit: with like-named parameters equal and the specialising amplitudes zero (z-amplitudes and w field; mu=k=0; temporal amplitudes; A_t=B_t=C_t=D_t=0; k_1=k_2=cp_1=cp_2=0) the source evaluators of the larger model equal those of the smaller one at every point; frequencies of vanished terms stay free.',
   note='real arithmetic instead of IEEE; libm as uninterpreted functions + axioms of lib/real.h; denominators assumed non-zero; extractor rule table; CBMC DFCC + SMT solver' + '; cos 0 = 1, sin 0 = 0 axioms', tech='relational assertions between two mechanically extracted C++ classes in one CBMC unit, __CPROVER_rational + SMT portfolio'),
}

NOT_YET = 'contract check not built yet in this session (see DESIGN.md section 4 for the plan)'
NA = {
 'C09': 'floating-point accuracy (rounding error bounds, NaN/inf freedom) is outside contract-based deductive verification with the installed tools: CBMC bit-precise floats cannot bound the error of 12 KB expressions and the real-arithmetic contracts abstract rounding away (DESIGN.md 4/C09)',
 'C18': 'agreement of Fortran bind(C)/SWIG declarations with C definitions is static interface matching across languages; there is no function body to put under contract and no installed verifier reads Fortran or SWIG (DESIGN.md 4/C18)',
}

def main():
    props = [json.loads(l)['id'] for l in open(os.path.join(HERE, 'properties.jsonl'))]
    checks = []
    for p in props:
        if p in CLAIMED:
            c = CLAIMED[p]
            checks.append({'property_id': p, 'quick_cmd': './check %s --tier quick' % p, 'thorough_cmd': './check %s --tier thorough' % p,
                           'evidence_file': 'evidence/%s.json' % p, 'replay_cmd_template': './check %s --replay {path}' % p,
                           'engine': 'cbmc-contracts',
                           'level_claimed': {'category': c['cat'], 'text': c['text'], 'design_ref': c['ref']},
                           'level_note': c['note'], 'technique': c['tech']})
    na = [{'property_id': p, 'reason': NA.get(p, NOT_YET)} for p in props if p not in CLAIMED]
    m = {'version': 1,
         'setup_cmd': 'sh -c "command -v cbmc goto-cc goto-instrument cvc5 z3 gcc g++ python3 >/dev/null && python3 -m py_compile vf/*.py check"',
         'hooks': {'guard': 'MASA_VERIF', 'enable': 'none needed: the checks extract the functions from /repo/src on every run; no hook is compiled into MASA',
                   'baseline_off_cmd': 'cd /repo && make -k -j8 check', 'source_commits': [], 'add_only': True},
         'engines': [{'name': 'cbmc-contracts', 'path': 'vf/', 'serves_properties': sorted(CLAIMED),
                      'kind_free_text': 'mechanical C extraction of the real C++ functions + CBMC 6.11 code contracts (DFCC) + SMT/SAT back ends; native twin + real-library replay for counterexamples'}],
         'checks': checks, 'not_applicable': na,
         'notes': 'exit codes: 0 all claimed obligations discharged, 1 VIOLATION, 2 undecided/tooling (never a violation). Known findings: KNOWN_FINDINGS.txt'}
    json.dump(m, open(os.path.join(HERE, 'MANIFEST.json'), 'w'), indent=1)

if __name__ == '__main__':
    main()
