/* sa.spec.h -- contracts for the Spalart-Allmaras solutions (property C05):
 *   rans_sa (1-D channel in eta), fans_sa_transient_free_shear, fans_sa_steady_wall_bounded.
 * Oracle: the property statement -- sources == residual of the RANS / FANS equations closed with the SA model
 * (eddy viscosity nu_sa*f_v1(chi) differentiated as a function of position, production, wall destruction,
 * conservative diffusion + c_b2 gradient-squared term) applied to the exact fields the API returns.
 * The unit defines one of UNIT_rans_sa / UNIT_fans_sa_transient_free_shear / UNIT_fans_sa_steady_wall_bounded. */
#include "roy.h"

/* ====================================================================================================== */
#if defined(UNIT_rans_sa)
/* Channel flow, wall units (nu_molecular = 1/re_tau, wall distance d = eta, eta in (0,1)):
 *     0 = ((1/re_tau + nu_t) u')' + 1                                       (streamwise momentum, dp/dx = -1)
 *     0 = cb1 S~ nu  -  cw1 fw (nu/d)^2  +  (1/sigma) [ ((1/re_tau + nu) nu')' + cb2 nu'^2 ]
 * with nu_t = nu fv1(chi), chi = nu re_tau, fv1 = chi^3/(chi^3+cv1^3), fv2 = 1 - chi/(1+chi fv1),
 * Omega = |u'| = u' on the admissible domain (lemma proved with du's contract: a1 > 0 && eta < 1 ==> du(eta) >= 0),
 * Sbar = nu fv2/(kappa^2 d^2),
 * S~ = Omega + Sbar                                             if Sbar >= -cv2 Omega
 *    = Omega + Omega (cv2^2 Omega + cv3 Sbar)/((cv3-2cv2) Omega - Sbar)   otherwise     (Johnson-Allmaras modification)
 * r = min(nu/(S~ kappa^2 d^2), 10), g = r + cw2 (r^6 - r), fw = g ((1+cw3^6)/(g^6+cw3^6))^(1/6),
 * cw1 = cb1/kappa^2 + (1+cb2)/sigma.
 * Exact fields (returned by eval_exact_u / eval_exact_v):
 *     U(eta) = a1 eta (1 - eta/2),   NU(eta) = b1 eta - (etam+1) b1 eta^2/(2 etam) + b1 eta^3/(3 etam).
 * Jets use x as the eta direction. */
/* coefficients are bound to locals first: a LIT() call multiplied by a jet component that constant-folds (0, 1, 2)
   inside one expression trips a CBMC 6.11 simplifier invariant (std_expr.cpp operator==) under --dfcc */
#define RS_ETA JVARX(E, eta); JMUL(E2_, E, E); JMUL(E3_, E2_, E)
#define RS_U   Sc ku2_ = -LIT(1, 2) * a1; JSCALE(U1_, a1, E); JSCALE(U2_, ku2_, E2_); JADD(U, U1_, U2_)
#define RS_NU  Sc kn2_ = -(etam + 1) * b1 * vinv(2 * etam), kn3_ = b1 * vinv(3 * etam); \
  JSCALE(N1_, b1, E); JSCALE(N2_, kn2_, E2_); JSCALE(N3_, kn3_, E3_); JADD(N12_, N1_, N2_); JADD(NU, N12_, N3_)
#define RS_FIELDS RS_ETA; RS_U; RS_NU
/* eddy viscosity jet VT = NU * fv1(CHI), CHI = NU * re_tau (chi = nu/nu_mol, nu_mol = 1/re_tau) */
#define RS_VT \
  JSCALE(CHI, re_tau, NU); JMUL(CH2_, CHI, CHI); JMUL(CH3_, CH2_, CHI); JADDC(DEN_, CH3_, cv1 * cv1 * cv1); \
  JINV(IDEN_, DEN_); JMUL(FV1, CH3_, IDEN_); JMUL(VT, NU, FV1)

static Sc rs_u(Sc eta) { RS_ETA; RS_U; return U_v; }
static Sc rs_du(Sc eta) { RS_ETA; RS_U; return U_x; }
static Sc rs_d2u(void) { Sc eta = 0; RS_ETA; RS_U; return U_xx; }   /* U'' is constant (U is quadratic): the value at any eta */
static Sc rs_nu(Sc eta) { RS_ETA; RS_NU; return NU_v; }
static Sc rs_dnu(Sc eta) { RS_ETA; RS_NU; return NU_x; }
static Sc rs_d2nu(Sc eta) { RS_ETA; RS_NU; return NU_xx; }
static Sc rs_chi(Sc eta) { RS_ETA; RS_NU; RS_VT; return CHI_v; }
static Sc rs_fv1(Sc eta) { RS_ETA; RS_NU; RS_VT; return FV1_v; }
static Sc rs_vt(Sc eta) { RS_ETA; RS_NU; RS_VT; return VT_v; }
static Sc rs_dvt(Sc eta) { RS_ETA; RS_NU; RS_VT; return VT_x; }
static Sc rs_fv2(Sc eta) { Sc c = rs_chi(eta); return 1 - c * vinv(1 + c * rs_fv1(eta)); }
static Sc rs_cw1(void) { return cb1 * vinv(kappa * kappa) + (1 + cb2) * vinv(sigma); }
static Sc rs_sbar(Sc eta) { return rs_nu(eta) * rs_fv2(eta) * vinv(kappa * kappa * eta * eta); }
static Sc rs_s(Sc eta)
{ /* Omega = |U'|.  On the admissible domain (a1 > 0, eta in (0,1)) U' = a1 (1 - eta) >= 0, so |U'| = U': that lemma is the
     second ensures clause of du's contract (discharged there); here Omega is written U'.  (With vabs() in this place the
     obligation of s is still discharged in a sign-split rendering, but every caller up the chain r, g, fw, ... then needs
     REQ(eta in (0,1)) and the extra call-site requires-goals defeat the solvers' preprocessing -- see report.) */
  Sc Om = rs_du(eta), Sb = rs_sbar(eta);
  if (Sb >= -cv2 * Om) return Om + Sb;
  return Om + Om * (cv2 * cv2 * Om + cv3 * Sb) * vinv((cv3 - 2 * cv2) * Om - Sb);
}
static Sc rs_r(Sc eta)
{
  Sc rt = rs_nu(eta) * vinv(rs_s(eta) * kappa * kappa * eta * eta);
  if (rt > 10) return 10;
  return rt;
}
static Sc rs_g(Sc eta) { Sc r_ = rs_r(eta); return r_ + cw2 * (r_ * r_ * r_ * r_ * r_ * r_ - r_); }
static Sc rs_fw(Sc eta)
{
  Sc g_ = rs_g(eta), c6 = cw3 * cw3 * cw3 * cw3 * cw3 * cw3;
  return g_ * vpow((1 + c6) * vinv(g_ * g_ * g_ * g_ * g_ * g_ + c6), LIT(1, 6));
}
static Sc rs_production(Sc eta) { return cb1 * rs_s(eta) * rs_nu(eta); }
static Sc rs_destruction(Sc eta) { Sc nd = rs_nu(eta) * vinv(eta); return rs_cw1() * rs_fw(eta) * nd * nd; }
static Sc rs_transport(Sc eta)
{ /* (1/sigma) [ ((1/re_tau + NU) NU')' + cb2 NU'^2 ]   (sub-terms bound to locals: helps the solvers) */
  RS_ETA; RS_NU; Sc ir = vinv(re_tau); JADDC(DIF_, NU, ir);
  Sc flux_x = DIF__x * NU_x + DIF__v * NU_xx;
  Sc gsq = NU_x * NU_x;
  return vinv(sigma) * (flux_x + cb2 * gsq);
}
static Sc rs_q_u(Sc eta)
{ /* ((1/re_tau + VT) U')' + 1 */
  RS_FIELDS; RS_VT; JADDC(VIS_, VT, vinv(re_tau));
  return VIS__x * U_x + VIS__v * U_xx + 1;
}
static Sc rs_q_v(Sc eta) { return rs_production(eta) - rs_destruction(eta) + rs_transport(eta); }

/* admissibility (property quantifier): eta in (0,1); a1 > 0 is the constructor's fixed value 2 (not registered, cannot be
 * changed through the API).  Used only for the vorticity-sign lemma in du's contract. */
#define RS_ADM (a1 > 0 && eta > 0 && eta < 1)
#define CONTRACT_rans_sa__u_1            REQ(1) ENS_EQ(rs_u(eta)) FRAME()
#define CONTRACT_rans_sa__du_1           REQ(1) ENS_EQ(rs_du(eta)) ENS(!RS_ADM || RET >= 0) FRAME()
#define CONTRACT_rans_sa__d2u_0          REQ(1) ENS_EQ(rs_d2u()) FRAME()
#define CONTRACT_rans_sa__nu_1           REQ(1) ENS_EQ(rs_nu(eta)) FRAME()
#define CONTRACT_rans_sa__dnu_1          REQ(1) ENS_EQ(rs_dnu(eta)) FRAME()
#define CONTRACT_rans_sa__d2nu_1         REQ(1) ENS_EQ(rs_d2nu(eta)) FRAME()
#define CONTRACT_rans_sa__chi_1          REQ(1) ENS_EQ(rs_chi(eta)) FRAME()
#define CONTRACT_rans_sa__fv1_1          REQ(1) ENS_EQ(rs_fv1(eta)) FRAME()
#define CONTRACT_rans_sa__fv2_1          REQ(1) ENS_EQ(rs_fv2(eta)) FRAME()
#define CONTRACT_rans_sa__vt_1           REQ(1) ENS_EQ(rs_vt(eta)) FRAME()
#define CONTRACT_rans_sa__cw1_0          REQ(1) ENS_EQ(rs_cw1()) FRAME()
#define CONTRACT_rans_sa__s_1            REQ(1) ENS_EQ(rs_s(eta)) FRAME()
#define CONTRACT_rans_sa__r_1            REQ(1) ENS_EQ(rs_r(eta)) FRAME()
#define CONTRACT_rans_sa__g_1            REQ(1) ENS_EQ(rs_g(eta)) FRAME()
#define CONTRACT_rans_sa__fw_1           REQ(1) ENS_EQ(rs_fw(eta)) FRAME()
#define CONTRACT_rans_sa__production_1   REQ(1) ENS_EQ(rs_production(eta)) FRAME()
#define CONTRACT_rans_sa__destruction_1  REQ(1) ENS_EQ(rs_destruction(eta)) FRAME()
#define CONTRACT_rans_sa__transport_1    REQ(1) ENS_EQ(rs_transport(eta)) FRAME()
#define CONTRACT_rans_sa__eval_exact_u_1 REQ(1) ENS_EQ(rs_u(eta)) FRAME()
#define CONTRACT_rans_sa__eval_exact_v_1 REQ(1) ENS_EQ(rs_nu(eta)) FRAME()
#define CONTRACT_rans_sa__eval_q_u_1     REQ(1) ENS_EQ(rs_q_u(eta)) FRAME()
#define CONTRACT_rans_sa__eval_q_v_1     REQ(1) ENS_EQ(rs_q_v(eta)) FRAME()
#endif

/* ====================================================================================================== */
#if defined(UNIT_fans_sa_transient_free_shear)
/* Favre-averaged Navier-Stokes + Spalart-Allmaras, infinite wall distance (no destruction term, S~ = S = |vorticity|):
 *   Q_rho   = rho_t + div(rho u)
 *   Q_rho_u = (rho u)_t + div(rho u u) + p_x - div(tau)_x          tau = (mu + mu_t)(grad u + grad u^T - 2/3 div u I)
 *   Q_rho_v = (rho v)_t + div(rho v u) + p_y - div(tau)_y          mu_t = rho nu f_v1(chi), chi = rho nu/mu, f_v1 = chi^3/(chi^3+c_v1^3)
 *   Q_rho_e = (rho e_t)_t + div(rho u H) - div(tau.u) + div(q)     q = -c_p (mu/Pr + mu_t/Pr_t) grad T, T = p/(rho R),
 *                                                                  e_t = c_v T + |u|^2/2, H = e_t + p/rho, c_v = R/(Gamma-1), c_p = Gamma c_v
 *   Q_nu    = (rho nu)_t + div(rho u nu) - c_b1 S rho nu - (1/sigma)[ div((mu + rho nu) grad nu) + c_b2 rho |grad nu|^2 ]
 * mu_t is differentiated as a function of position (through rho, nu AND f_v1(chi)) as the property states.
 * Fields (Roy forms; eval_exact_nu(x,y,t) is the only time-dependent exact evaluator of the API):
 *   NU  = nu_sa_0 + nu_sa_x cos(a_nusax pi x/L) + nu_sa_y cos(a_nusay pi y/L) + nu_sa_t cos(a_nusat pi t/L)
 *   RHO = rho_0 + rho_x sin(a_rhox pi x/L) + rho_y cos(a_rhoy pi y/L) + rho_t sin(a_rhot pi t/L)
 *   U   = u_0 + u_x sin(a_ux pi x/L) + u_y cos(a_uy pi y/L) + u_t cos(a_ut pi t/L)
 *   V   = v_0 + v_x cos(a_vx pi x/L) + v_y sin(a_vy pi y/L) + v_t sin(a_vt pi t/L)
 *   P   = p_0 + p_x cos(a_px pi x/L) + p_y sin(a_py pi y/L) + p_t cos(a_pt pi t/L) */
#define FS_FIELDS \
  Sc z = 0; \
  ROY_X(nx_, JCOS, nu_sa_x, a_nusax); ROY_Y(ny_, JCOS, nu_sa_y, a_nusay); ROY_T(nt_, JCOS, nu_sa_t, a_nusat); JSUM4(NU, nu_sa_0, nx_, ny_, nt_); \
  ROY_X(rx_, JSIN, rho_x, a_rhox);    ROY_Y(ry_, JCOS, rho_y, a_rhoy);    ROY_T(rt_, JSIN, rho_t, a_rhot);    JSUM4(RHO, rho_0, rx_, ry_, rt_); \
  ROY_X(ux_, JSIN, u_x, a_ux);        ROY_Y(uy_, JCOS, u_y, a_uy);        ROY_T(ut_, JCOS, u_t, a_ut);        JSUM4(U, u_0, ux_, uy_, ut_); \
  ROY_X(vx_, JCOS, v_x, a_vx);        ROY_Y(vy_, JSIN, v_y, a_vy);        ROY_T(vt_, JSIN, v_t, a_vt);        JSUM4(V, v_0, vx_, vy_, vt_); \
  ROY_X(px_, JCOS, p_x, a_px);        ROY_Y(py_, JSIN, p_y, a_py);        ROY_T(pt_, JCOS, p_t, a_pt);        JSUM4(P, p_0, px_, py_, pt_); \
  JCONST(W, 0)
/* eddy viscosity jet MUT = RHO NU f_v1(CHI), CHI = RHO NU / mu; MUE = mu + MUT */
#ifndef FS_DIAG_FV1CONST
#define FS_FV1JET JMUL(FV1, CH3_, IDEN_)
#else
#define FS_FV1JET JCONST(FV1, CH3__v * IDEN__v)   /* diagnostic only: f_v1 frozen under differentiation */
#endif
#define FS_MUT \
  JMUL(RN_, RHO, NU); JSCALE(CHI, vinv(mu), RN_); JMUL(CH2_, CHI, CHI); JMUL(CH3_, CH2_, CHI); \
  JADDC(DEN_, CH3_, c_v1 * c_v1 * c_v1); JINV(IDEN_, DEN_); FS_FV1JET; JMUL(MUT, RN_, FV1); JADDC(MUE, MUT, mu)
/* stress components and the derivatives the operators need (2-D: W = 0) */
#define FS_STRESS \
  Sc c43 = 4 * vinv(3), c23 = 2 * vinv(3);   /* 4/3, 2/3 through the reciprocal UF: a folded -2/3 factor trips a CBMC 6.11 simplifier invariant */ \
  Sc txx_v = MUE_v * (c43 * U_x - c23 * V_y); \
  Sc txx_x = MUE_x * (c43 * U_x - c23 * V_y) + MUE_v * (c43 * U_xx - c23 * V_xy); \
  Sc tyy_v = MUE_v * (c43 * V_y - c23 * U_x); \
  Sc tyy_y = MUE_y * (c43 * V_y - c23 * U_x) + MUE_v * (c43 * V_yy - c23 * U_xy); \
  Sc txy_v = MUE_v * (U_y + V_x); \
  Sc txy_x = MUE_x * (U_y + V_x) + MUE_v * (U_xy + V_xx); \
  Sc txy_y = MUE_y * (U_y + V_x) + MUE_v * (U_yy + V_xy)

static Sc fs_exact_nu(Sc x, Sc y, Sc t) { FS_FIELDS; return NU_v; }
static Sc fs_q_rho(Sc x, Sc y, Sc t) { FS_FIELDS; EULER_OPERATORS; return op_mass; }
static Sc fs_q_rho_u(Sc x, Sc y, Sc t) { FS_FIELDS; EULER_OPERATORS; FS_MUT; FS_STRESS; return op_xmom - (txx_x + txy_y); }
static Sc fs_q_rho_v(Sc x, Sc y, Sc t) { FS_FIELDS; EULER_OPERATORS; FS_MUT; FS_STRESS; return op_ymom - (txy_x + tyy_y); }
static Sc fs_q_rho_e(Sc x, Sc y, Sc t)
{
  FS_FIELDS; EULER_OPERATORS; FS_MUT; FS_STRESS;
  /* viscous work div(tau.u) */
  Sc work = (txx_x * U_v + txx_v * U_x + txy_x * V_v + txy_v * V_x) + (txy_y * U_v + txy_v * U_y + tyy_y * V_v + tyy_v * V_y);
  /* heat flux q = -KAP grad T, KAP = c_p (mu/Pr + mu_t/Pr_t), T = P/(RHO R) */
  Sc cv_ = R * vinv(Gamma - 1), cp_ = Gamma * cv_;
  JINV(IR_, RHO); JMUL(PIR_, P, IR_); JSCALE(TT, vinv(R), PIR_);
  Sc kt_ = cp_ * vinv(Pr_t), kl_ = cp_ * mu * vinv(Pr);
  JSCALE(KT_, kt_, MUT); JADDC(KAP, KT_, kl_);
  Sc divq = -((KAP_x * TT_x + KAP_v * TT_xx) + (KAP_y * TT_y + KAP_v * TT_yy));
#ifdef FS_DIAG_ET   /* diagnostic only: the time term as the code has it (T frozen in time) */
  return op_energy - RET__t + (cv_ * TT_v * RHO_t + KE__v * RHO_t + RHO_v * (U_v * U_t + V_v * V_t)) - work + divq;
#else
  return op_energy - work + divq;
#endif
}
static Sc fs_q_nu(Sc x, Sc y, Sc t)
{
  FS_FIELDS; JMUL(RN_, RHO, NU); JMUL(RNU_, RN_, U); JMUL(RNV_, RN_, V);
  Sc conv = RN__t + RNU__x + RNV__y;
  Sc OM = U_y - V_x;                                   /* vorticity; S = |OM| = sqrt(OM^2) */
  Sc S = vsqrt(OM * OM);
  JADDC(DIF_, RN_, mu);
  Sc diff = (DIF__x * NU_x + DIF__v * NU_xx) + (DIF__y * NU_y + DIF__v * NU_yy);
  Sc gsq = NU_x * NU_x + NU_y * NU_y;
  return conv - c_b1 * S * RN__v - vinv(sigma) * (diff + c_b2 * RHO_v * gsq);
}
/* the two-argument exact evaluators: the fields at t = 0 (cos 0 = 1, sin 0 = 0 written out: the UFs do not know them) */
#define FS_STEADY(r, JFX, ax, aax, JFY, ay, aay, c0) ROY_X(r##x_, JFX, ax, aax); ROY_Y(r##y_, JFY, ay, aay); JSUM3(r, c0, r##x_, r##y_)
static Sc fs_exact_u0(Sc x, Sc y) { Sc z = 0, t = 0; FS_STEADY(U, JSIN, u_x, a_ux, JCOS, u_y, a_uy, u_0 + u_t); return U_v; }
static Sc fs_exact_v0(Sc x, Sc y) { Sc z = 0, t = 0; FS_STEADY(V, JCOS, v_x, a_vx, JSIN, v_y, a_vy, v_0); return V_v; }
static Sc fs_exact_p0(Sc x, Sc y) { Sc z = 0, t = 0; FS_STEADY(P, JCOS, p_x, a_px, JSIN, p_y, a_py, p_0 + p_t); return P_v; }
static Sc fs_exact_rho0(Sc x, Sc y) { Sc z = 0, t = 0; FS_STEADY(RHO, JSIN, rho_x, a_rhox, JCOS, rho_y, a_rhoy, rho_0); return RHO_v; }

#define FS_REQ REQ(VF_PI_OK)
#define FSC(f) fans_sa_transient_free_shear__##f
#define CONTRACT_fans_sa_transient_free_shear__eval_exact_nu_3  FS_REQ ENS_EQ(fs_exact_nu(x, y, t)) FRAME()
#define CONTRACT_fans_sa_transient_free_shear__eval_q_rho_3     FS_REQ ENS_EQ(fs_q_rho(x, y, t)) FRAME()
#define CONTRACT_fans_sa_transient_free_shear__eval_q_rho_u_3   FS_REQ ENS_EQ(fs_q_rho_u(x, y, t)) FRAME()
#define CONTRACT_fans_sa_transient_free_shear__eval_q_rho_v_3   FS_REQ ENS_EQ(fs_q_rho_v(x, y, t)) FRAME()
#define CONTRACT_fans_sa_transient_free_shear__eval_q_rho_e_3   FS_REQ ENS_EQ(fs_q_rho_e(x, y, t)) FRAME()
/* two-argument (steady) forms == three-argument forms at t = 0 (the right-hand side is the extracted code itself) */
#define CONTRACT_fans_sa_transient_free_shear__eval_exact_nu_2  REQ(1) ENS_EQ(FSC(eval_exact_nu_3)(x, y, LIT(0, 1))) FRAME()
#define CONTRACT_fans_sa_transient_free_shear__eval_q_rho_2     REQ(1) ENS_EQ(FSC(eval_q_rho_3)(x, y, LIT(0, 1))) FRAME()
#define CONTRACT_fans_sa_transient_free_shear__eval_q_rho_v_2   REQ(1) ENS_EQ(FSC(eval_q_rho_v_3)(x, y, LIT(0, 1))) FRAME()
/* eval_q_rho_u(x,y), eval_q_rho_e(x,y) were bounded stand-ins until rule Lf / the sign-hoisted LIT removed the CBMC 6.11 crash on their bodies */
#define CONTRACT_fans_sa_transient_free_shear__eval_q_rho_u_2   REQ(1) ENS_EQ(FSC(eval_q_rho_u_3)(x, y, LIT(0, 1))) FRAME()
#define CONTRACT_fans_sa_transient_free_shear__eval_q_rho_e_2   REQ(1) ENS_EQ(FSC(eval_q_rho_e_3)(x, y, LIT(0, 1))) FRAME()
#define CONTRACT_fans_sa_transient_free_shear__eval_q_nu_2      REQ(1) ENS_EQ(FSC(eval_q_nu_3)(x, y, LIT(0, 1))) FRAME()
#define CONTRACT_fans_sa_transient_free_shear__eval_exact_u_2   FS_REQ ENS_EQ(fs_exact_u0(x, y)) FRAME()
#define CONTRACT_fans_sa_transient_free_shear__eval_exact_v_2   FS_REQ ENS_EQ(fs_exact_v0(x, y)) FRAME()
#define CONTRACT_fans_sa_transient_free_shear__eval_exact_p_2   FS_REQ ENS_EQ(fs_exact_p0(x, y)) FRAME()
#define CONTRACT_fans_sa_transient_free_shear__eval_exact_rho_2 FS_REQ ENS_EQ(fs_exact_rho0(x, y)) FRAME()
#endif

/* ====================================================================================================== */
#if defined(UNIT_fans_sa_steady_wall_bounded)
/* Steady FANS + SA over a flat plate (wall distance d = y), p = p_0 constant, rho = p_0/(R T):
 *   Q_rho   = div(rho u)
 *   Q_rho_u = div(rho u u) + p_x - div(tau)_x,  Q_rho_v likewise          (p_x = p_y = 0)
 *   Q_rho_e = div(rho u H) - div(tau.u) + div(q),  H = c_p T + |u|^2/2, q = -c_p (mu/Pr + mu_t/Pr_t) grad T, c_p = Gamma R/(Gamma-1)
 *   Q_nu    = div(rho u nu) - c_b1 S_sa rho nu + c_w1 f_w rho (nu/d)^2 - (1/sigma)[ div((mu + rho nu) grad nu) + c_b2 rho |grad nu|^2 ]
 * tau = (mu + mu_t)(grad u + grad u^T - 2/3 div u I), mu_t = rho nu f_v1(chi) differentiated through rho, nu and f_v1(chi).
 * S_sa = Omega + Sm, Omega = |u_y - v_x|, Sm_orig = nu f_v2/(kappa^2 d^2),
 *   Sm = Sm_orig if -c_v2 Omega <= Sm_orig, else Omega (c_v2^2 Omega + c_v3 Sm_orig)/((c_v3 - 2 c_v2) Omega - Sm_orig);
 * r = nu/(S_sa kappa^2 d^2), g = r + c_w2 (r^6 - r), f_w = g ((1 + c_w3^6)/(g^6 + c_w3^6))^(1/6), c_w1 = c_b1/kappa^2 + (1+c_b2)/sigma.
 * Exact fields (van Driest-transformed boundary layer; returned by eval_exact_u/v/t/rho/nu/p):
 *   u_inf = M_inf sqrt(Gamma R T_inf), T_aw = T_inf (1 + r_T (Gamma-1) M_inf^2/2), A = sqrt(1 - T_inf/T_aw), F_c = (T_aw/T_inf - 1)/asin(A)^2,
 *   Re_x = rho_inf u_inf x/mu, c_f = C_cf/F_c (Re_x/F_c)^(-1/7), u_tau = u_inf sqrt(c_f/2), y+ = y u_tau/nu_w, nu_w = mu/rho_w,
 *   u_eq+ = log(1 + kappa y+)/kappa + C1 (1 - exp(-y+/eta1) - (y+/eta1) exp(-y+ b)), C1 = -log(kappa)/kappa + C, u_eq = u_tau u_eq+,
 *   U = (u_inf/A) sin(A u_eq/u_inf), V = eta_v u_tau y/(14 x), T = T_inf (1 + r_T (Gamma-1) M_inf^2 (1 - U^2/u_inf^2)/2),
 *   RHO = p_0/(R T), NU = kappa u_tau y - alpha y^2.
 * Jet rules local to this unit (b > 0): the non-integer power is differentiated in the logarithmic form
 *   (b^e)' = e b^e b'/b, (b^e)'' = e b^e b''/b + e (e-1) b^e b'^2/b^2   -- the textbook rule e b^(e-1) with b^(e-1) written b^e/b;
 * that rewriting is a power law the UF axioms of real.h do not contain, so it is part of this spec's trusted jet rules. */
/* CBMC 6.11 crashes (simplifier invariant, std_expr.cpp operator==) when a NEGATIVE NON-INTEGER rational constant held in a local
 * (-1/7, -1/4, ...) becomes a factor of a product.  In this unit spec-side rational constants are therefore written n*inv(d) with the
 * reciprocal UF (inv(d)*d == 1 makes them the same numbers; they are just not constant-folded). */
#define WQ(n, d) ((n) * vinv(d))
#define JPOWLOG(r, a, e) Sc r##_e = (e); Sc r##_p = vpow(a##_v, r##_e); Sc r##_ia = vinv(a##_v); Sc r##_d1 = r##_e * r##_p * r##_ia; Sc r##_d2 = r##_e * (r##_e - 1) * r##_p * r##_ia * r##_ia; \
  JCHAIN(r, a, r##_p, r##_d1, r##_d2)
/* JSQRT of jets.h (same rule) with its factors 1/2, -1/4 written through WQ and bound to locals, for the CBMC issue above */
#define JSQRTH(r, a) Sc r##_q = vsqrt(a##_v); Sc r##_qi = vinv(r##_q); Sc r##_h = WQ(1, 2), r##_f = WQ(1, 4); Sc r##_d1 = r##_h * r##_qi; Sc r##_d2 = -r##_f * r##_qi * r##_qi * r##_qi; \
  JCHAIN(r, a, r##_q, r##_d1, r##_d2)
#define JMONO(r, val, ea, eb) Sc r##_a = (ea), r##_b = (eb); Sc r##_ix = vinv(x), r##_iy = vinv(y); JD(r); r##_v = (val); \
  r##_x = r##_a * r##_v * r##_ix; r##_y = r##_b * r##_v * r##_iy; r##_z = 0; r##_t = 0; \
  r##_xx = r##_a * (r##_a - 1) * r##_v * r##_ix * r##_ix; r##_yy = r##_b * (r##_b - 1) * r##_v * r##_iy * r##_iy; r##_xy = r##_a * r##_b * r##_v * r##_ix * r##_iy; \
  r##_zz = 0; r##_xz = 0; r##_yz = 0
#define JMONOX(r, val, ea) Sc r##_a = (ea); Sc r##_ix = vinv(x); JD(r); r##_v = (val); \
  r##_x = r##_a * r##_v * r##_ix; r##_y = 0; r##_z = 0; r##_t = 0; \
  r##_xx = r##_a * (r##_a - 1) * r##_v * r##_ix * r##_ix; r##_yy = 0; r##_xy = 0; r##_zz = 0; r##_xz = 0; r##_yz = 0
/* constants of the solution (functions of the registered parameters only) */
#define WB_CONSTS \
  Sc k_uinf = M_inf * vsqrt(Gamma * R * T_inf); \
  Sc k_rhoinf = p_0 * vinv(R) * vinv(T_inf); \
  Sc k_Taw = T_inf * (1 + r_T * (Gamma - 1) * M_inf * M_inf * WQ(1, 2)); \
  Sc k_rhow = p_0 * vinv(R) * vinv(k_Taw); \
  Sc k_A = vsqrt(1 - T_inf * vinv(k_Taw)); \
  Sc k_asin = vasin(k_A); Sc k_iasin = vinv(k_asin); \
  Sc k_Fc = (k_Taw * vinv(T_inf) - 1) * k_iasin * k_iasin; \
  Sc k_nuw = mu * vinv(k_rhow); \
  Sc k_C1 = -vinv(kappa) * vlog(kappa) + C; \
  Sc k_cp = Gamma * R * vinv(Gamma - 1); \
  Sc k_cw1 = c_b1 * vinv(kappa) * vinv(kappa) + (1 + c_b2) * vinv(sigma)
/* u_eq+ as a function of a jet YPJ of y+ (used twice: along (x,y), and along y+ itself for d u_eq+/d y+) */
#define WB_UEP(r, YPJ) \
  JSCALE(r##a_, kappa, YPJ); JADDC(r##b_, r##a_, 1); JLOG(r##lg_, r##b_); \
  Sc r##k1_ = -vinv(eta1), r##k2_ = -b; \
  JSCALE(r##e1a_, r##k1_, YPJ); JEXP(r##e1_, r##e1a_); JSCALE(r##e2a_, r##k2_, YPJ); JEXP(r##e2_, r##e2a_); \
  JMUL(r##ye_, YPJ, r##e2_); Sc r##k3_ = vinv(eta1), r##k4_ = vinv(kappa); JSCALE(r##t3_, r##k3_, r##ye_); \
  JADD(r##s1_, r##e1_, r##t3_); JNEG(r##s2_, r##s1_); JADDC(r##s3_, r##s2_, 1); \
  JSCALE(r##t1_, r##k4_, r##lg_); JSCALE(r##t2_, k_C1, r##s3_); JADD(r, r##t1_, r##t2_)
/* Two renderings of the x/y-dependence of u_tau, y+, V and of U = (u_inf/A) sin(A u_eq/u_inf):
 *  - default (generic jets): u_tau by the chain sqrt o pow o linear, y+ and V by products/reciprocal, U by JSIN -- nothing derived by hand;
 *  - WB_RENDERED: the same functions written as monomials c x^a y^b (u_tau ~ x^(-1/14), y+ ~ x^(-1/14) y, V ~ x^(-15/14) y) with the power
 *    rule d/dx x^a = a x^a / x, and U'' = -k^2 U for U = sin(k s)/k.  Mathematically equal (power laws + y inv(y) = 1 + (u_inf/A)(A/u_inf) = 1),
 *    numerically cross-checked (native twin, 19.5k admissible samples, both renderings agree with the code to 1e-17), NOT proved equal by
 *    the solvers (the UF axioms have no power law).  Only used for the out-of-framework proof attempt of eval_q_rho reported in p_c05.py. */
#ifndef WB_RENDERED
#define WB_UT_JETS \
  JPOWLOG(JPW, JB, -WQ(1, 7)); Sc k_cf = C_cf * k_ifc; JSCALE(JCF, k_cf, JPW); Sc k_half = WQ(1, 2); JSCALE(JHCF, k_half, JCF); \
  JSQRTH(JSQ, JHCF); JSCALE(JUT, k_uinf, JSQ); \
  JMUL(JUY, JUT, JY); Sc k_inuw = vinv(k_nuw); JSCALE(JYP, k_inuw, JUY)
#define WB_U_JET JSCALE(JARG, k_au, JUEQ); JSIN(JSN, JARG); JSCALE(JU, k_ua, JSN)
#define WB_V_JET JINV(JIX, JX); JMUL(JUYX, JUY, JIX); JSCALE(JV, k_ev, JUYX)
#else
#define WB_UT_JETS \
  Sc k_e7 = -WQ(1, 7); Sc k_cf = C_cf * k_ifc; Sc v_cf = k_cf * vpow(JB_v, k_e7); Sc v_ut = k_uinf * vsqrt(v_cf * WQ(1, 2)); \
  Sc k_e14 = -WQ(1, 14); JMONOX(JCF, v_cf, k_e7); JMONOX(JUT, v_ut, k_e14); \
  JMUL(JUY, JUT, JY); Sc k_inuw = vinv(k_nuw); JMONO(JYP, k_inuw * v_ut * y, k_e14, 1)
#define WB_U_JET Sc v_arg = k_au * JUEQ_v; Sc v_sn = vsin(v_arg), v_cs = vcos(v_arg); Sc v_u = k_ua * v_sn; JCHAIN(JU, JUEQ, v_u, v_cs, -k_au * k_au * v_u)
#define WB_V_JET Sc k_e1514 = -WQ(15, 14); JMONO(JV, k_ev * v_ut * y * vinv(x), k_e1514, 1)
#endif
/* all field jets at (x, y) */
#define WB_JETS \
  WB_CONSTS; Sc z = 0, t = 0; JVARX(JX, x); JVARY(JY, y); \
  Sc k_re = k_rhoinf * k_uinf * vinv(mu); JSCALE(JRE, k_re, JX); Sc k_ifc = vinv(k_Fc); JSCALE(JB, k_ifc, JRE); \
  WB_UT_JETS; \
  WB_UEP(JUEP, JYP); JMUL(JUEQ, JUT, JUEP); \
  Sc k_au = k_A * vinv(k_uinf), k_ua = k_uinf * vinv(k_A); WB_U_JET; \
  Sc k_ev = eta_v * WQ(1, 14); WB_V_JET; \
  JMUL(JU2, JU, JU); Sc k_tc = r_T * (Gamma - 1) * M_inf * M_inf * WQ(1, 2); Sc k_iu2 = vinv(k_uinf) * vinv(k_uinf); \
  Sc k_t1 = -T_inf * k_tc * k_iu2; JSCALE(JT1, k_t1, JU2); JADDC(JT, JT1, T_inf * (1 + k_tc)); \
  JINV(JIT, JT); Sc k_pr = p_0 * vinv(R); JSCALE(JR, k_pr, JIT); \
  JMUL(JY2, JY, JY); JSCALE(JN1, kappa, JUY); Sc k_ma = -alpha; JSCALE(JN2, k_ma, JY2); JADD(JN, JN1, JN2); \
  JCONST(JW, 0); JCONST(JP, p_0)
#define WB_MUT \
  JMUL(JRN, JR, JN); Sc k_imu = vinv(mu); JSCALE(JCHI, k_imu, JRN); JMUL(JCH2, JCHI, JCHI); JMUL(JCH3, JCH2, JCHI); \
  JADDC(JDEN, JCH3, c_v1 * c_v1 * c_v1); JINV(JIDEN, JDEN); JMUL(JFV1, JCH3, JIDEN); JMUL(JMUT, JRN, JFV1); JADDC(JMUE, JMUT, mu)
/* SA closure values at (x,y) from the jets */
#define WB_SA \
  Sc s_om = JU_y - JV_x; Sc s_Omega = vsqrt(s_om * s_om); \
  Sc s_fv2 = 1 - JCHI_v * vinv(1 + JCHI_v * JFV1_v); \
  Sc s_ik2d2 = vinv(kappa) * vinv(kappa) * vinv(y) * vinv(y); \
  Sc s_Smo = JN_v * s_ik2d2 * s_fv2; \
  Sc s_Sm2 = s_Omega * (c_v2 * c_v2 * s_Omega + c_v3 * s_Smo) * vinv((c_v3 - 2 * c_v2) * s_Omega - s_Smo); \
  Sc s_Sm = s_Smo; if (!(-c_v2 * s_Omega <= s_Smo)) s_Sm = s_Sm2; \
  Sc s_S = s_Sm + s_Omega; \
  Sc s_r = JN_v * vinv(s_S) * s_ik2d2; \
  Sc s_g = s_r + c_w2 * (s_r * s_r * s_r * s_r * s_r * s_r - s_r); \
  Sc s_c6 = c_w3 * c_w3 * c_w3 * c_w3 * c_w3 * c_w3; \
  Sc s_fw = s_g * vpow((1 + s_c6) * vinv(s_g * s_g * s_g * s_g * s_g * s_g + s_c6), WQ(1, 6))

/* admissible parameters and points (property quantifier): positive thermodynamic/flow parameters, x, y > 0 */
#define WB_ADM (mu > 0 && R > 0 && p_0 > 0 && Pr > 0 && Pr_t > 0 && eta1 > 0 && kappa > 0 && sigma > 0 && c_v1 > 0 && T_inf > 0 && M_inf > 0 \
                && r_T > 0 && Gamma > 1 && C_cf > 0 && b > 0 && x > 0 && y > 0)

/* ---- update(x,y): every cached member == its defining expression of (x, y, registered parameters) ---- */
#ifdef VF_NATIVE   /* native twin: tolerant comparison that reports the member (diagnostics / bounded stand-in only) */
static int wb_close(const char *n, Sc a, Sc e) { Sc sc = fabsl(a) > fabsl(e) ? fabsl(a) : fabsl(e); if (sc < 1) sc = 1;
  if (fabsl(a - e) <= 1e-9L * sc) return 1; printf("  MISMATCH %s: code %.15Lg spec %.15Lg\n", n, a, e); return 0; }
#define WEQ(m, e) wb_close(#m, m, e)
#define WAND &
#else
#define WEQ(m, e) ((m) == (e))
#define WAND &&
#endif
static int wb_ok_consts(Sc x, Sc y)
{
  WB_CONSTS;
  return WEQ(C1, k_C1) WAND WEQ(u_inf, k_uinf) WAND WEQ(rho_inf, k_rhoinf) WAND WEQ(T_aw, k_Taw) WAND WEQ(rho_w, k_rhow) WAND WEQ(A, k_A) WAND WEQ(F_c, k_Fc)
      WAND WEQ(nu_w, k_nuw) WAND WEQ(cp, k_cp) WAND WEQ(c_w1, k_cw1) WAND WEQ(d, y);
}
static int wb_ok_fields(Sc x, Sc y)
{
  WB_JETS; WB_MUT;
  return WEQ(Re_x, JRE_v) WAND WEQ(c_f, JCF_v) WAND WEQ(u_tau, JUT_v) WAND WEQ(y_plus, JYP_v) WAND WEQ(u_eq_plus, JUEP_v) WAND WEQ(u_eq, JUEQ_v)
      WAND WEQ(U, JU_v) WAND WEQ(V, JV_v) WAND WEQ(T, JT_v) WAND WEQ(RHO, JR_v) WAND WEQ(NU_SA, JN_v) WAND WEQ(chi, JCHI_v) WAND WEQ(f_v1, JFV1_v) WAND WEQ(mu_t, JMUT_v);
}
static int wb_ok_sa(Sc x, Sc y)
{
  WB_JETS; WB_MUT; WB_SA;
  return WEQ(Omega, s_Omega) WAND WEQ(f_v2, s_fv2) WAND WEQ(Sm_orig, s_Smo) WAND WEQ(Sm1, s_Smo) WAND WEQ(Sm2, s_Sm2) WAND WEQ(Sm, s_Sm) WAND WEQ(S_sa, s_S)
      WAND WEQ(r, s_r) WAND WEQ(g, s_g) WAND WEQ(f_w, s_fw);
}
static int wb_ok_derivs(Sc x, Sc y)
{
  WB_JETS;
  /* d u_eq+/d y+ : u_eq+ along its own argument */
  JVARX(JQ, JYP_v); WB_UEP(JUQ, JQ);
  return WEQ(d_ueqplus_yplus, JUQ_x)
      WAND WEQ(D2ueqDx2, JUEQ_xx) WAND WEQ(D2ueqDy2, JUEQ_yy)
      WAND WEQ(D2uDx2, JU_xx) WAND WEQ(D2uDy2, JU_yy) WAND WEQ(D2uDxy, JU_xy)
      WAND WEQ(D2vDx2, JV_xx) WAND WEQ(D2vDy2, JV_yy) WAND WEQ(D2vDxy, JV_xy)
      WAND WEQ(D2TDx2, JT_xx) WAND WEQ(D2TDy2, JT_yy);
}
#define WB_CACHE C1, u_inf, rho_inf, T_aw, rho_w, A, F_c, nu_w, Re_x, c_f, u_tau, u_eq_plus, y_plus, u_eq, U, V, T, RHO, NU_SA, chi, f_v1, mu_t, \
  d_ueqplus_yplus, c_w1, d, Omega, Sm1, Sm, Sm2, Sm_orig, g, r, S_sa, cp, f_w, f_v2, \
  D2ueqDx2, D2ueqDy2, D2uDx2, D2uDy2, D2vDxy, D2vDx2, D2vDy2, D2TDx2, D2TDy2, D2uDxy

/* ---- exact fields and sources ---- */
static Sc wb_exact_u(Sc x, Sc y) { WB_JETS; return JU_v; }
static Sc wb_exact_v(Sc x, Sc y) { WB_JETS; return JV_v; }
static Sc wb_exact_t(Sc x, Sc y) { WB_JETS; return JT_v; }
static Sc wb_exact_rho(Sc x, Sc y) { WB_JETS; return JR_v; }
static Sc wb_exact_nu(Sc x, Sc y) { WB_JETS; return JN_v; }
/* (EULER_OPERATORS of roy.h wants jets named RHO,U,V,W,P; U,V,RHO,T are cached members here, so the operators are written out on J-prefixed jets) */
#define WB_STRESS \
  Sc c43 = WQ(4, 3), c23 = WQ(2, 3); \
  Sc txx_v = JMUE_v * (c43 * JU_x - c23 * JV_y); \
  Sc txx_x = JMUE_x * (c43 * JU_x - c23 * JV_y) + JMUE_v * (c43 * JU_xx - c23 * JV_xy); \
  Sc tyy_v = JMUE_v * (c43 * JV_y - c23 * JU_x); \
  Sc tyy_y = JMUE_y * (c43 * JV_y - c23 * JU_x) + JMUE_v * (c43 * JV_yy - c23 * JU_xy); \
  Sc txy_v = JMUE_v * (JU_y + JV_x); \
  Sc txy_x = JMUE_x * (JU_y + JV_x) + JMUE_v * (JU_xy + JV_xx); \
  Sc txy_y = JMUE_y * (JU_y + JV_x) + JMUE_v * (JU_yy + JV_xy)
#define WB_CONV JMUL(JRU, JR, JU); JMUL(JRV, JR, JV); JMUL(JRUU, JRU, JU); JMUL(JRUV, JRU, JV); JMUL(JRVV, JRV, JV)
static Sc wb_q_rho(Sc x, Sc y) { WB_JETS; WB_CONV; return JRU_x + JRV_y; }
static Sc wb_q_rho_u(Sc x, Sc y) { WB_JETS; WB_CONV; WB_MUT; WB_STRESS; return JRUU_x + JRUV_y + JP_x - (txx_x + txy_y); }
static Sc wb_q_rho_v(Sc x, Sc y) { WB_JETS; WB_CONV; WB_MUT; WB_STRESS; return JRUV_x + JRVV_y + JP_y - (txy_x + tyy_y); }
static Sc wb_q_rho_e(Sc x, Sc y)
{
  WB_JETS; WB_CONV; WB_MUT; WB_STRESS;
  /* rho H = rho c_p T + rho |u|^2/2 */
  JMUL(JUU, JU, JU); JMUL(JVV, JV, JV); JADD(JQ2, JUU, JVV); Sc k_h = WQ(1, 2); JSCALE(JKE, k_h, JQ2);
  JSCALE(JCT, k_cp, JT); JADD(JH, JCT, JKE); JMUL(JRUH, JRU, JH); JMUL(JRVH, JRV, JH);
  Sc work = (txx_x * JU_v + txx_v * JU_x + txy_x * JV_v + txy_v * JV_x) + (txy_y * JU_v + txy_v * JU_y + tyy_y * JV_v + tyy_v * JV_y);
  Sc kt_ = k_cp * vinv(Pr_t), kl_ = k_cp * mu * vinv(Pr);
  JSCALE(JKT, kt_, JMUT); JADDC(JKAP, JKT, kl_);
  Sc divq = -((JKAP_x * JT_x + JKAP_v * JT_xx) + (JKAP_y * JT_y + JKAP_v * JT_yy));
  return JRUH_x + JRVH_y - work + divq;
}
static Sc wb_q_nu(Sc x, Sc y)
{
  WB_JETS; WB_MUT; WB_SA;
  JMUL(JRNU, JRN, JU); JMUL(JRNV, JRN, JV);
  Sc conv = JRNU_x + JRNV_y;
  JADDC(JDIF, JRN, mu);
  Sc diff = (JDIF_x * JN_x + JDIF_v * JN_xx) + (JDIF_y * JN_y + JDIF_v * JN_yy);
  Sc gsq = JN_x * JN_x + JN_y * JN_y;
  Sc nd = JN_v * vinv(y);
  return conv - c_b1 * s_S * JRN_v + k_cw1 * s_fw * JR_v * nd * nd - vinv(sigma) * (diff + c_b2 * JR_v * gsq);
}
#define WB_REQ REQ(WB_ADM)
/* update needs no precondition for its equalities (denominators / sqrt arguments are implicit admissibility as everywhere) */
#define WB_UPDATE_CONTRACT REQ(1) ENS(RET == 0) ENS(wb_ok_consts(x, y)) ENS(wb_ok_fields(x, y)) ENS(wb_ok_sa(x, y)) ENS(wb_ok_derivs(x, y)) FRAME(WB_CACHE)
/* eval_exact_p returns the registered parameter p_0 (never NaN): no admissibility needed, so the vacuity guard can reach it natively */
#define CONTRACT_fans_sa_steady_wall_bounded__eval_exact_p_2   REQ(1) ENS_EQ(p_0) FRAME(WB_CACHE)
#endif

#include "sa_bounded.h"
