"""C17 C interface: every extern "C" wrapper calls exactly the C++ <double> template named by the convention with the
same arguments and returns its value (status wrappers: the callee's status)."""
import os, time
import apicheck
from common import scratch

def run(tier, seed):
    t0 = time.time()
    base = scratch('c17')
    jobs, not_under, info = apicheck.build({'cwrappers'}, base, only=os.environ.get('VF_ONLY'))
    results = apicheck.run_jobs(jobs, base, tier)
    return apicheck.finish('C17', results, not_under, info, tier, seed, t0, base,
        'each wrapper body extracted from cmasa.cpp; the template it calls is an uninterpreted function + ghost call record; '
        'contract generated from the wrapper name: masa_eval_<n>d_<kind>_<var> -> masa_eval_<kind>_<var><double> with the same '
        'arguments, other wrappers -> the like-named template; double results bit-identical (up to NaN payload), '
        'masa_init_param/masa_sanity_check/masa_get_array must return the callee status')

replay = apicheck.replay_generic
