"""C20 specialisations: relational obligations between two extracted classes in one unit.  For each pair (A, B) and each
source evaluator f:  with the shared parameters equal and the specialising parameters of A at their reduction values,
A::f(point) == B::f(point restricted).  Independent of any spec function (hence independent evidence for C01-C03)."""
import os, re, sys, json, time
from concurrent.futures import ThreadPoolExecutor
import xtract
from xtract import ExtractionBreak
from common import *
from cbmcjob import cbmc_job
import numeric

H = 'masa_internal.h'
TR = {'eval_q_rho': 'eval_q_rho', 'eval_q_u': 'eval_q_rho_u', 'eval_q_v': 'eval_q_rho_v', 'eval_q_w': 'eval_q_rho_w', 'eval_q_e': 'eval_q_rho_e'}
Z3D = r'^(u_z|v_z|rho_z|p_z|w_0|w_x|w_y|w_z)$'          # all z-amplitudes and the w field
PAIRS = [
    # (A class, A src, B class, B src, A-members forced to 0, extra assumptions on A, name map A->B, drop-args (A arg names not passed to B), functions of A)
    ('euler_3d', 'euler.cpp', 'euler_2d', 'euler.cpp', Z3D, [], None, ['z'], r'^eval_q_rho(_u|_v|_e)?$'),
    ('navierstokes_3d_compressible', 'cns.cpp', 'navierstokes_2d_compressible', 'cns.cpp', Z3D, [], None, ['z'], r'^eval_q_rho(_u|_v|_e)?$'),
    ('navierstokes_2d_compressible', 'cns.cpp', 'euler_2d', 'euler.cpp', r'^(mu|k)$', [], None, [], r'^eval_q_rho(_u|_v|_e)?$'),
    ('navierstokes_3d_compressible', 'cns.cpp', 'euler_3d', 'euler.cpp', r'^(mu|k)$', [], None, [], r'^eval_q_rho(_u|_v|_w|_e)?$'),
    ('euler_transient_1d', 'euler_transient.cpp', 'euler_1d', 'euler.cpp', r'^(rho_t|u_t|p_t)$', [], None, ['t'], r'^eval_q_rho(_u|_e)?$'),
    ('euler_transient_2d', 'euler_transient_2d.cpp', 'euler_2d', 'euler.cpp', r'^(rho_t|u_t|v_t|p_t)$', [], TR, ['t'], r'^eval_q_(rho|u|v|e)$'),
    ('euler_transient_3d', 'euler_transient_3d.cpp', 'euler_3d', 'euler.cpp', r'^(rho_t|u_t|v_t|w_t|p_t)$', [], TR, ['t'], r'^eval_q_(rho|u|v|w|e)$'),
]
for dim in (1, 2, 3):
    for var in ('const', 'var'):
        PAIRS.append(('heateq_%dd_unsteady_%s' % (dim, var), 'heat.cpp', 'heateq_%dd_steady_%s' % (dim, var), 'heat.cpp',
                      r'^(A_t|B_t|C_t|D_t)$', [], None, ['t'], r'^eval_q_t$'))
    PAIRS.append(('heateq_%dd_steady_var' % dim, 'heat.cpp', 'heateq_%dd_steady_const' % dim, 'heat.cpp', r'^(k_1|k_2)$', [], None, [], r'^eval_q_t$'))
    PAIRS.append(('heateq_%dd_unsteady_var' % dim, 'heat.cpp', 'heateq_%dd_unsteady_const' % dim, 'heat.cpp', r'^(k_1|k_2|cp_1|cp_2)$', [], None, [], r'^eval_q_t$'))

TRUSTED = numeric.TRUSTED_NUMERIC + ['both classes live in one unit with prefixed members (A__m, B__m); "shared parameters equal" = every like-named member equal']


def block(prefix, cls, src):
    decl, funcs = xtract.extract_class(os.path.join(SRC, src), os.path.join(SRC, H), cls)
    funcs = [f for f in funcs if re.match(r'^eval_q_', f.name)]
    o = ['/* ---- class %s with members prefixed %s ---- */' % (cls, prefix)]
    for m in decl.scalars:
        o.append('Sc %s%s;' % (prefix, m))
    for m in decl.scalars:
        o.append('#define %s %s%s' % (m, prefix, m))
    for f in funcs:
        o.append('/* %s::%s sha256=%s */\nSc %s%s(%s)\n{%s}\n' % (cls, f.name, f.sha, prefix, f.cname, xtract.sig(f), f.body_c))
    for m in decl.scalars:
        o.append('#undef %s' % m)
    return '\n'.join(o), decl, funcs


def run(tier, seed):
    t0 = time.time()
    rep = Report('C20')
    d = scratch('c20')
    jobs = []
    notes = []
    try:
        for pi_, (ca, sa, cb, sb, zero_re, extra, nmap, drop, fsel) in enumerate(PAIRS):
            ta, da, fa = block('A__', ca, sa)
            tb, db, fb = block('B__', cb, sb)
            shared = [m for m in da.scalars if m in db.scalars]
            aonly = [m for m in da.scalars if m not in db.scalars]
            zeroed = [m for m in da.scalars if re.match(zero_re, m)]
            if not zeroed:
                raise ExtractionBreak('%s -> %s: no member matches the reduction pattern %s' % (ca, cb, zero_re))
            unit = '#include "real.h"\n' + ta + '\n' + tb + '\n'
            for f in fa:
                if not re.match(fsel, f.name):
                    continue
                bname = (nmap or {}).get(f.name, f.name)
                bargs = [a for a in f.args if a[1] not in drop]
                g = [x for x in fb if x.name == bname and len(x.args) == len(bargs)]
                if not g:
                    raise ExtractionBreak('%s::%s has no counterpart %s/%d in %s' % (ca, f.name, bname, len(bargs), cb))
                g = g[0]
                hn = 'h_%d_%s' % (pi_, f.name)
                decls = ' '.join('Sc a_%s;' % a[1] for a in f.args)
                assumes = ['VF_PI_OK'] + ['A__%s == B__%s' % (m, m) for m in shared if m not in zeroed] + ['A__%s == 0' % m for m in zeroed] + \
                          ['B__%s == 0' % m for m in zeroed if m in shared]
                body = 'void %s(void)\n{ %s\n  __CPROVER_assume(%s);\n  __CPROVER_assert(A__%s(%s) == B__%s(%s), "%s::%s == %s::%s under the reduction");\n  __CPROVER_assert(0, "canary");\n}\n' % (
                    hn, decls, ' && '.join(assumes), f.cname, ', '.join('a_' + a[1] for a in f.args), g.cname, ', '.join('a_' + a[1] for a in bargs),
                    ca, f.name, cb, bname)
                fn = os.path.join(d, '%s.c' % hn)
                open(fn, 'w').write(unit + body)
                jobs.append((hn, fn, '%s::%s == %s::%s' % (ca, f.name, cb, bname), {'zeroed': zeroed, 'free_A_only': [m for m in aonly if m not in zeroed], 'sha': [f.sha, g.sha]}))
    except ExtractionBreak as e:
        rep.undecide('extraction break: %s' % e)
        write_evidence('C20', tier, seed, 'proof', {'evaluations': 0, 'distinct_nontrivial': 0, 'explanation': 'extraction break: %s' % e}, TRUSTED, time.time() - t0, 0)
        return rep.finish()
    only = os.environ.get('VF_ONLY')
    if only:
        jobs = [j for j in jobs if re.search(only, j[2])]
    tmo = 400 if tier == 'quick' else 1800     # the 3-D -> 2-D Navier-Stokes energy reduction needs ~60-90 s on a busy machine

    def work(j):
        hn, fn, disp, meta = j
        return j, cbmc_job(d, hn, fn, hn, enforce=None, smt=True, timeout=tmo, own_prefixes=(hn,))

    with ThreadPoolExecutor(max_workers=NCPU) as ex:
        results = list(ex.map(work, jobs))
    n_dis = 0
    per_fn, samples = [], []
    for (hn, fn, disp, meta), r in results:
        per_fn.append({'obligation': disp, 'status': r.status, 'backend': r.backend, 'seconds': round(r.seconds, 2), 'canary': r.canary,
                       'zeroed': meta['zeroed'], 'free_specialising_parameters': meta['free_A_only'], 'source_sha256': meta['sha']})
        if r.status == 'discharged' and r.canary == 'reachable':
            n_dis += len(r.obligations)
            if len(samples) < 6:
                samples.append({'obligation': disp, 'assumed_zero': meta['zeroed']})
            continue
        payload = {'function': disp, 'status': r.status, 'failed_obligations': r.failed, 'detail': r.detail, 'verifier_output': r.log[-8000:], 'checker_cmd': r.cmd}
        if r.status == 'refuted':
            rep.violation(re.sub(r'\W+', '_', disp), payload, no_input=True)
        else:
            rep.undecide('%s: %s (%s) canary=%s' % (disp, r.status, r.detail, r.canary))
    cov = {'obligations': n_dis + len(rep.violations) + len(rep.undecided), 'discharged': n_dis,   # obligations that fail as recorded known findings are counted under known_finding_obligations only
          
           'checker_cmd': results[0][1].cmd if results else 'n/a', 'trusted_base': TRUSTED, 'per_obligation': per_fn,
           'pairs': ['%s -> %s' % (p[0], p[2]) for p in PAIRS], 'bounded': [], 'samples': samples or [{'note': 'nothing discharged'}],
           'explanation': 'relational assertion over two mechanically extracted classes: shared members equal, the specialising members at their reduction value '
                          '(amplitudes 0; frequencies of the vanished terms stay free), sources equal at every point'}
    write_evidence('C20', tier, seed, 'proof', cov, TRUSTED, time.time() - t0, len(rep.violations))
    print('C20: %d relational obligations, %d discharged, %d violations, %d undecided (%.1fs)' % (len(results), n_dis, len(rep.violations), len(rep.undecided), time.time() - t0))
    return rep.finish()


def replay(path):
    p = json.load(open(path))
    print('replay file carries no concrete input (no-failing-input-found); failed obligation(s): %s of %s' % (p.get('failed_obligations'), p.get('function')))
    print((p.get('verifier_output') or '')[-3000:])
    return EXIT_VIOLATION
