"""C11 parameter store: representation invariant + contracts on the member functions of manufactured_solution<Scalar>
(masa_class.cpp) extracted to C over lib/vstore.h; per-class constructor/init_var obligations (ctorcheck)."""
import os, re, sys, json, time
from concurrent.futures import ThreadPoolExecutor
import xstore
from xtract import ExtractionBreak
from common import *
from cbmcjob import cbmc_job
import common
sh = common.run

TRUSTED = [
    'std::map / std::vector semantics as contracts in lib/vstore.h (find, operator[], begin/++ in key order, size, push_back, operator[] with the caller-side bounds obligation)',
    'std::string keys are interned identifiers (only whole-string equality/order is used); Scalar* is an address in an abstract scalar heap, distinct objects have distinct addresses; std::vector<Scalar> values are abstract (length via an uninterpreted function)',
    'capacities KMAX=256 names, HMAX=512 scalars, VMAXV=256 entries (largest catalogue class registers ~230 parameters); loops closed by loop contracts',
    'Scalar arithmetic is exact real arithmetic (lib/real.h); MASA_VAR_DEFAULT == -12345.67 exactly',
    'extractor rule table of vf/xstore.py; CBMC 6.11 DFCC; z3 5.1 / z3 4.8 decide the quantified obligations',
]

MAPF = ['vmap_find', 'vmap_get_or_insert', 'vmap_set', 'vmap_begin', 'vmap_next', 'vvec_push']
FUNCS = [   # (cname, harness declarations, call args, replace, loops)
    ('store__ctor', '', '', ['vararr_push', 'vecarr_push'], False),
    ('store__register_var', 'vkey k; vaddr a;', 'k, a', ['varmap_get_or_insert', 'varmap_set', 'vararr_push'], False),
    ('store__set_var', 'vkey k; Sc v;', 'k, v', ['varmap_find'], False),
    ('store__get_var', 'vkey k;', 'k', ['varmap_find'], False),
    ('store__purge_var', '', '', ['varmap_begin', 'varmap_next'], True),
    ('store__sanity_check', '', '', ['varmap_begin', 'varmap_next', 'vecmap_begin', 'vecmap_next'], True),
    ('store__display_var', '', '', ['varmap_begin', 'varmap_next'], True),
    ('store__register_vec', 'vkey k; vvecid a;', 'k, a', ['vecmap_get_or_insert', 'vecmap_set', 'vecarr_push'], False),
    ('store__set_vec', 'vkey k; vvecid a;', 'k, a', ['vecmap_find'], False),
    ('store__get_vec', 'vkey k; vvecid a;', 'k, a', ['vecmap_find'], False),
    ('store__display_vec', '', '', ['vecmap_begin', 'vecmap_next'], True),
]


def build_unit(d):
    text, info, dflt = xstore.extract_store(os.path.join(SRC, 'masa_class.cpp'))
    pre = ['#include "real.h"', '#include "vstore.h"', 'int ghost_w;   /* arbitrary fixed key (ghost constant) */',
           '#define MVD_NUM (%d)\n#define MVD_DEN (%d)' % dflt,
           '#include "store.spec.h"']
    for i in info:
        pre.append('#ifndef CONTRACT_%s\n#define CONTRACT_%s\n#define NOCONTRACT_%s 1\n#endif' % ((i['function'],) * 3))
        for k in (1, 2, 3):
            pre.append('#ifndef LOOP_%s_%d\n#define LOOP_%s_%d\n#endif' % (i['function'], k, i['function'], k))
    open(os.path.join(d, 'store_unit.c'), 'w').write('\n'.join(pre) + '\n' + text)
    return info


def under_contract():
    txt = open(os.path.join(CONTRACTS, 'store.spec.h')).read()
    return set(re.findall(r'^\s*#\s*define\s+CONTRACT_(store__\w+)\b', txt, re.M))


def store_jobs(d, tier, only=None):
    info = build_unit(d)
    have = under_contract()
    jobs, not_under = [], []
    for cname, decl, args, repl, loops in FUNCS:
        if only and not re.search(only, cname):
            continue
        if cname not in have:
            not_under.append(cname)
            continue
        hf = os.path.join(d, 'h_%s.c' % cname)
        open(hf, 'w').write('#include "store_unit.c"\nvoid h_%s(void)\n{ %s\n  %s(%s);\n  __CPROVER_assert(0, "canary");\n}\n' % (cname, decl, cname, args))
        jobs.append((cname, hf, repl, loops))
    return jobs, not_under, info


def run_store_jobs(d, jobs, tier):
    tmo = 180 if tier == 'quick' else 1200

    def work(j):
        cname, hf, repl, loops = j
        return j, cbmc_job(d, cname, hf, 'h_' + cname, enforce=cname, replace=repl, loop_contracts=loops, smt=True, timeout=tmo,
                           solvers=['z3new', 'z3'], canary_timeout=90, split=True, split_workers=8,
                           small_scope={'KMAX': 6, 'HMAX': 8, 'VMAXV': 8, '_smt': 1})

    with ThreadPoolExecutor(max_workers=3) as ex:
        return list(ex.map(work, jobs))


def run(tier, seed):
    t0 = time.time()
    rep = Report('C11')
    d = scratch('c11')
    try:
        jobs, not_under, info = store_jobs(d, tier, os.environ.get('VF_ONLY'))
    except ExtractionBreak as e:
        rep.undecide('extraction break: %s' % e)
        write_evidence('C11', tier, seed, 'proof', {'evaluations': 0, 'distinct_nontrivial': 0, 'explanation': 'extraction break: %s' % e}, TRUSTED, time.time() - t0, 0)
        return rep.finish()
    results = run_store_jobs(d, jobs, tier)
    n_dis = 0
    per_fn, samples = [], []
    for (cname, hf, repl, loops), r in results:
        per_fn.append({'function': cname, 'status': r.status, 'backend': r.backend, 'seconds': round(r.seconds, 2), 'canary': r.canary,
                       'obligations': len(r.obligations), 'callees_replaced_by_contract': repl,
                       'source_sha256': [i['sha256'] for i in info if i['function'] == cname][0]})
        if r.status == 'discharged' and r.canary == 'reachable':
            n_dis += len(r.obligations)
            if len(samples) < 5:
                samples.append({'function': cname, 'obligations': [o[0] for o in r.obligations if 'postcondition' in o[0] or 'loop' in o[0] or 'assertion' in o[0]][:8]})
            continue
        payload = {'function': cname, 'status': r.status, 'failed_obligations': r.failed, 'detail': r.detail, 'verifier_output': r.log[-8000:], 'checker_cmd': r.cmd}
        if os.environ.get('VF_VERBOSE'):
            sys.stderr.write(r.log[-4000:] + '\n')
        if r.status == 'refuted':
            rep.violation(cname + '.contract', payload, no_input=True)
        else:
            rep.undecide('%s: %s (%s) canary=%s' % (cname, r.status, r.detail, r.canary))
    # per-class constructor / init_var obligations
    import ctorcheck
    c_dis, c_per, c_samples, c_not = ctorcheck.run_ctor_checks(rep, d, tier, os.environ.get('VF_ONLY'))
    n_dis += c_dis
    cov = {'obligations': n_dis + len(rep.violations) + len(rep.undecided), 'discharged': n_dis,   # obligations that fail as recorded known findings are counted under known_finding_obligations only
          
           'checker_cmd': results[0][1].cmd if results else 'n/a', 'trusted_base': TRUSTED,
           'functions_under_contract': [j[0] for j, r in results] + [p['function'] for p in c_per],
           'functions_not_under_contract': not_under + c_not,
           'per_function': per_fn + c_per, 'extraction': info, 'known_finding_obligations': len(rep.known_hits), 'bounded': [],
           'samples': (samples + c_samples) or [{'note': 'nothing discharged'}],
           'explanation': 'representation invariant STORE_WF (names -> 1..num_vars injective, slots valid and pairwise distinct) is assumed and re-established by every '
                          'store function; set/get/register/purge/sanity contracts give the per-handle map semantics for every history by induction over the API; '
                          'per class: the constructor registers every name once with a distinct member address and init_var() gives every registered name a value '
                          'that does not depend on the pre-state and returns 0.'}
    write_evidence('C11', tier, seed, 'proof', cov, TRUSTED, time.time() - t0, len(rep.violations))
    print('C11: %d store functions + %d class obligations under contract, %d obligations discharged, %d violations, %d undecided, %d known (%.1fs)' % (
        len(results), len(c_per), n_dis, len(rep.violations), len(rep.undecided), len(rep.known_hits), time.time() - t0))
    return rep.finish()


def replay(path):
    p = json.load(open(path))
    print('replay file carries no concrete input (no-failing-input-found); failed obligation(s): %s of %s' % (p.get('failed_obligations'), p.get('function')))
    print((p.get('verifier_output') or '')[-3000:])
    return EXIT_VIOLATION
