/* laplace_burgers.spec.h -- contracts for laplace_2d and burgers_equation (property C04).
 *
 * Oracle = the property statement:
 *   laplace_2d:        eval_q_f == PHI_xx + PHI_yy  for the PHI that eval_exact_phi returns
 *                      (doxygen/solutions/laplace.page: phi = (Ly-y)^2 (Ly+y)^2 + (Lx-x)^2 (Lx+x)^2).
 *   burgers_equation:  eval_q_u(x,y,t) == U_t + (U U)_x + (U V)_y,  eval_q_v(x,y,t) == V_t + (U V)_x + (V V)_y
 *                      for the U, V that eval_exact_u / eval_exact_v (x,y,t) return; the 2-argument exact
 *                      fields are the same formula with the temporal term dropped.
 *   ONE field definition (BG_FIELDS_*) serves the exact contracts and the source contracts.  It is the documented
 *   one (doxygen/solutions/burgers.page, eq. manufactured_2d_trans / manufactured_2d_steady):
 *     u = u_0 + u_x sin(a_ux pi x/L) + u_y cos(a_uy pi y/L) + u_t cos(a_ut pi t/L)
 *     v = v_0 + v_x cos(a_vx pi x/L) + v_y sin(a_vy pi y/L) + v_t sin(a_vt pi t/L)
 *   (the page writes the temporal argument over "Lt"; the class has an unregistered, never initialised member Lt
 *   that no function reads: every function of the class uses L there, and so does this spec.)
 *   The remaining named variants of the class (steady / viscous; not reachable through masa_eval_source_*) are
 *   covered with the operator the page gives for them: steady = no time term, viscous = - nu (phi_xx + phi_yy).
 */
#include "roy.h"

#if defined(UNIT_laplace_2d)
#define LAPLACE_FIELD \
  JVARX(X, x); JVARY(Y, y); \
  JNEG(mX, X); JADDC(XA, mX, Lx); JADDC(XB, X, Lx);   /* Lx - x, Lx + x */ \
  JNEG(mY, Y); JADDC(YA, mY, Ly); JADDC(YB, Y, Ly);   /* Ly - y, Ly + y */ \
  JMUL(XA2, XA, XA); JMUL(XB2, XB, XB); JMUL(PX, XA2, XB2); \
  JMUL(YA2, YA, YA); JMUL(YB2, YB, YB); JMUL(PY, YA2, YB2); \
  JADD(PHI, PY, PX)
static Sc lap_exact_phi(Sc x, Sc y) { LAPLACE_FIELD; return PHI_v; }
static Sc lap_q_f(Sc x, Sc y) { LAPLACE_FIELD; return PHI_xx + PHI_yy; }
#define CONTRACT_laplace_2d__eval_exact_phi_2 REQ(1) ENS_EQ(lap_exact_phi(x, y)) FRAME()
#define CONTRACT_laplace_2d__eval_q_f_2       REQ(1) ENS_EQ(lap_q_f(x, y)) FRAME()
#endif

#if defined(UNIT_burgers_equation)
/* spatial part of the documented fields (x, y, z, t, L, PI from scope) */
#define BG_SPACE \
  Sc z = 0; \
  ROY_X(ux_, JSIN, u_x, a_ux); ROY_Y(uy_, JCOS, u_y, a_uy); \
  ROY_X(vx_, JCOS, v_x, a_vx); ROY_Y(vy_, JSIN, v_y, a_vy)
/* steady fields: temporal term dropped (absent, not "t = 0") */
#define BG_FIELDS_S  Sc t = 0; BG_SPACE; JSUM3(U, u_0, ux_, uy_); JSUM3(V, v_0, vx_, vy_)
/* transient fields */
#define BG_FIELDS_T  BG_SPACE; ROY_T(ut_, JCOS, u_t, a_ut); ROY_T(vt_, JSIN, v_t, a_vt); \
                     JSUM4(U, u_0, ux_, uy_, ut_); JSUM4(V, v_0, vx_, vy_, vt_)
/* Burgers operators on jets U, V */
#define BG_OPERATORS \
  JMUL(UU_, U, U); JMUL(UV_, U, V); JMUL(VV_, V, V); \
  Sc op_u_inv = U_t + UU__x + UV__y; \
  Sc op_v_inv = V_t + UV__x + VV__y; \
  Sc op_u_vis = op_u_inv - nu * (U_xx + U_yy); \
  Sc op_v_vis = op_v_inv - nu * (V_xx + V_yy)

static Sc bg_exact_u_t(Sc x, Sc y, Sc t) { BG_FIELDS_T; return U_v; }
static Sc bg_exact_v_t(Sc x, Sc y, Sc t) { BG_FIELDS_T; return V_v; }
static Sc bg_exact_u_s(Sc x, Sc y) { BG_FIELDS_S; return U_v; }
static Sc bg_exact_v_s(Sc x, Sc y) { BG_FIELDS_S; return V_v; }
static Sc bg_q_u_t_inv(Sc x, Sc y, Sc t) { BG_FIELDS_T; BG_OPERATORS; return op_u_inv; }
static Sc bg_q_v_t_inv(Sc x, Sc y, Sc t) { BG_FIELDS_T; BG_OPERATORS; return op_v_inv; }
static Sc bg_q_u_t_vis(Sc x, Sc y, Sc t) { BG_FIELDS_T; BG_OPERATORS; return op_u_vis; }
static Sc bg_q_v_t_vis(Sc x, Sc y, Sc t) { BG_FIELDS_T; BG_OPERATORS; return op_v_vis; }
static Sc bg_q_u_s_inv(Sc x, Sc y) { BG_FIELDS_S; BG_OPERATORS; return op_u_inv; }
static Sc bg_q_v_s_inv(Sc x, Sc y) { BG_FIELDS_S; BG_OPERATORS; return op_v_inv; }
static Sc bg_q_u_s_vis(Sc x, Sc y) { BG_FIELDS_S; BG_OPERATORS; return op_u_vis; }
static Sc bg_q_v_s_vis(Sc x, Sc y) { BG_FIELDS_S; BG_OPERATORS; return op_v_vis; }

#define BGREQ REQ(VF_PI_OK)   /* L != 0 is implicit in vinv(L) */
/* the property's obligations (API: masa_eval_exact_u/v(x,y[,t]), masa_eval_source_u/v(x,y,t)) */
#define CONTRACT_burgers_equation__eval_exact_u_3 BGREQ ENS_EQ(bg_exact_u_t(x, y, t)) FRAME()
#define CONTRACT_burgers_equation__eval_exact_v_3 BGREQ ENS_EQ(bg_exact_v_t(x, y, t)) FRAME()
#define CONTRACT_burgers_equation__eval_exact_u_2 BGREQ ENS_EQ(bg_exact_u_s(x, y)) FRAME()
#define CONTRACT_burgers_equation__eval_exact_v_2 BGREQ ENS_EQ(bg_exact_v_s(x, y)) FRAME()
#define CONTRACT_burgers_equation__eval_q_u_3     BGREQ ENS_EQ(bg_q_u_t_inv(x, y, t)) FRAME()
#define CONTRACT_burgers_equation__eval_q_v_3     BGREQ ENS_EQ(bg_q_v_t_inv(x, y, t)) FRAME()
/* named variants of the class (documented operators, same fields) */
#define CONTRACT_burgers_equation__eval_q_u_transient_viscous_3 BGREQ ENS_EQ(bg_q_u_t_vis(x, y, t)) FRAME()
#define CONTRACT_burgers_equation__eval_q_v_transient_viscous_3 BGREQ ENS_EQ(bg_q_v_t_vis(x, y, t)) FRAME()
#define CONTRACT_burgers_equation__eval_q_u_steady_inviscid_2   BGREQ ENS_EQ(bg_q_u_s_inv(x, y)) FRAME()
#define CONTRACT_burgers_equation__eval_q_v_steady_inviscid_2   BGREQ ENS_EQ(bg_q_v_s_inv(x, y)) FRAME()
#define CONTRACT_burgers_equation__eval_q_u_steady_viscous_2    BGREQ ENS_EQ(bg_q_u_s_vis(x, y)) FRAME()
#define CONTRACT_burgers_equation__eval_q_v_steady_viscous_2    BGREQ ENS_EQ(bg_q_v_s_vis(x, y)) FRAME()
#endif
