"""cbmcjob.py -- one function under contract through goto-cc -> goto-instrument --dfcc -> cbmc.

SMT jobs run a solver portfolio (cvc5, z3 4.8, z3 5.x) in parallel on the same instrumented program; the first
definitive answer wins (all obligations SUCCESS, or a named FAILURE).  The vacuity canary (assert(0) behind all
assumptions of the harness) is checked in a separate cbmc run so that the main run never needs a model."""
import os, re, time, subprocess, signal, shutil
from common import run, parse_cbmc, BAD_LOG, z3new_env, LIB, CONTRACTS, _limits

_z3env = None
PROP_RE = re.compile(r'^Property (?P<id>\S+):\n(?:.*\n)?  (?P<desc>.*)$', re.M)


class JobResult:
    def __init__(self, name):
        self.name = name
        self.status = 'error'     # discharged | refuted | undecided | error | vacuous
        self.obligations = []     # (id, desc, status) excluding canary and instrumentation-library checks
        self.library_checks = 0
        self.failed = []          # ids with FAILURE
        self.backend = None
        self.canary = None        # 'reachable' | 'unreachable' | 'undecided' | None
        self.seconds = 0.0
        self.log = ''
        self.detail = ''
        self.cmd = ''


class _OutFile:
    def __init__(self, path):
        self.path = path

    def read(self):
        try:
            with open(self.path, 'rb') as f:
                return f.read()
        except OSError:
            return b''


_seq = [0]


def _popen(cmd, cwd, env=None):
    """start a process with its output in a file (a pipe would block a solver that prints a large model)"""
    _seq[0] += 1
    path = os.path.join(cwd, '.out.%d.%d' % (os.getpid(), _seq[0]))
    f = open(path, 'wb')
    p = subprocess.Popen(cmd, cwd=cwd, stdout=f, stderr=subprocess.STDOUT, env=env, preexec_fn=_limits, stdin=subprocess.DEVNULL)
    f.close()
    p.stdout = _OutFile(path)
    return p


def _kill(p):
    try:
        os.killpg(p.pid, signal.SIGKILL)
    except OSError:
        pass


def list_properties(b, cwd, timeout=120):
    """-> [(id, description)] from `cbmc --show-properties` (id line, location line, description line, expression)"""
    rc, out, s, to = run(['cbmc', '--show-properties', b], cwd=cwd, timeout=timeout)
    lines = out.splitlines()
    props = []
    for i, ln in enumerate(lines):
        m = re.match(r'^Property (\S+):$', ln)
        if m:
            desc = lines[i + 2].strip() if i + 2 < len(lines) else ''
            props.append((m.group(1), desc))
    return props, out


def cbmc_job(workdir, name, harness_file, entry, enforce=None, replace=(), loop_contracts=False, smt=True,
             timeout=60, extra_cbmc=(), extra_instr=(), own_prefixes=(), solvers=None, defines=(), nondet_static=True,
             expect_canary=True, canary_timeout=30, split=False, split_workers=6, small_scope=None):
    global _z3env
    r = JobResult(name)
    t0 = time.time()
    a = os.path.join(workdir, name + '.a.gb')
    b = os.path.join(workdir, name + '.b.gb')
    cc = ['goto-cc', '-I', LIB, '-I', CONTRACTS, '-I', workdir, '--function', entry] + ['-D' + d for d in defines] + \
         [harness_file, '-o', a]
    rc, out, s, to = run(cc, cwd=workdir, timeout=120)
    if rc != 0 or to:
        first = next((l.strip() for l in out.splitlines() if 'error' in l.lower() or 'not declared' in l or 'undeclared' in l), '')
        r.status, r.detail, r.log = 'error', 'goto-cc failed' + (': ' + first[:200] if first else ''), out
        r.seconds = time.time() - t0
        return r
    gi = ['goto-instrument', '--dfcc', entry]
    if enforce:
        gi += ['--enforce-contract', enforce]
    for g in replace:
        gi += ['--replace-call-with-contract', g]
    if loop_contracts:
        gi += ['--apply-loop-contracts']
    if nondet_static:
        gi += ['--nondet-static']
    gi += list(extra_instr) + [a, b]
    rc, out2, s, to = run(gi, cwd=workdir, timeout=300)
    if rc != 0 or to:
        r.status, r.detail, r.log = 'error', 'goto-instrument failed', out + out2
        r.seconds = time.time() - t0
        return r
    props, plog = list_properties(b, workdir)
    canary_ids = [p for p, d in props if d.strip().endswith('canary')]
    main_ids = [p for p, d in props if p not in canary_ids]
    if not main_ids:
        r.status, r.detail, r.log = 'vacuous', 'no obligations generated', plog[-2000:]
        r.seconds = time.time() - t0
        return r
    prefixes = tuple(own_prefixes) or tuple(p for p in (enforce, entry) if p)
    if solvers is None:
        solvers = ['cvc5', 'z3', 'z3new'] if smt else ['sat']
    if split:
        r = _split_solve(r, t0, workdir, name, b, props, main_ids, canary_ids, prefixes, solvers, extra_cbmc, timeout, smt,
                         expect_canary, canary_timeout, cc, gi, split_workers)
        if small_scope and r.status == 'undecided':
            # fallback only: the quantified proof attempt did not finish -- look for a counterexample at small capacity (quantifier-free, SAT)
            _small_scope_refute(r, workdir, name, harness_file, entry, enforce, replace, loop_contracts, extra_instr, nondet_static, defines, small_scope, prefixes)
        r.seconds = time.time() - t0
        return r
    procs = []
    sel = []
    for p in main_ids:
        sel += ['--property', p]
    for sv in solvers:
        env = None
        if sv == 'cvc5':
            flag = ['--cvc5']
        elif sv == 'z3':
            flag = ['--z3']
        elif sv == 'z3new':
            if _z3env is None:
                _z3env = z3new_env() or False
            if not _z3env:
                continue
            flag, env = ['--z3'], _z3env
        else:
            flag = []
        cmd = ['cbmc'] + flag + list(extra_cbmc) + sel + [b]
        procs.append([sv, _popen(cmd, workdir, env), cmd, None])
    cprocs = []
    if expect_canary and canary_ids:
        # canary: dump the reachability formula of assert(0) and ask the raw solvers for `sat` (no model parsing needed)
        cfile = os.path.join(workdir, name + '.canary.smt2')
        if smt:
            run(['cbmc', '--cvc5', '--outfile', cfile] + list(extra_cbmc) + ['--property', canary_ids[0], b], cwd=workdir, timeout=120)
            if os.path.exists(cfile):
                for sv_ in ('z3', 'z3-new', 'cvc5'):
                    if shutil.which(sv_):
                        cprocs.append((sv_, _popen([sv_, cfile], workdir)))
        else:
            cprocs.append(('sat', _popen(['cbmc'] + list(extra_cbmc) + ['--property', canary_ids[0], b], workdir)))
    r.cmd = ' '.join(cc) + ' && ' + ' '.join(gi) + ' && cbmc --%s <properties> %s' % ('|'.join(solvers), os.path.basename(b))
    logs = []
    deadline = time.time() + timeout
    winner = None
    pending = list(procs)
    while pending and time.time() < deadline and winner is None:
        for pr in list(pending):
            sv, p, cmd, _ = pr
            if p.poll() is None:
                continue
            pending.remove(pr)
            o = p.stdout.read().decode('utf-8', 'replace')
            logs.append('--- %s (%.1fs)\n%s' % (sv, time.time() - t0, o[-6000:]))
            if smt and 'Running SMT2' not in o and ('Passing problem to' in o or 'VERIFICATION SUCCESSFUL' not in o):
                continue      # an SMT job must show the SMT solver banner, unless symbolic execution alone decided every obligation (no solver engaged at all)
            res = parse_cbmc(o)
            if not res or any(b_ in o for b_ in BAD_LOG) or any(st in ('ERROR', 'UNKNOWN') for _, _, st in res) \
                    or ('VERIFICATION SUCCESSFUL' not in o and 'VERIFICATION FAILED' not in o):
                continue
            winner = (sv, res)
            break
        if winner is None and pending:
            time.sleep(0.05)
    for pr in pending:
        _kill(pr[1])
        try:
            pr[1].stdout.read()
        except Exception:
            pass
        logs.append('--- %s: no answer within %ds (killed)' % (pr[0], timeout) if winner is None else '--- %s: stopped (another solver answered)' % pr[0])
    if winner is None and smt and time.time() < deadline:
        # CBMC could not use a solver's answer (e.g. z3 returned `sat` with a model CBMC cannot parse, or `unknown`):
        # dump the combined formula of all selected obligations and ask the raw solvers; `unsat` discharges them all,
        # `sat` refutes at least one (unnamed).
        ffile = os.path.join(workdir, name + '.all.smt2')
        run(['cbmc', '--cvc5' if 'cvc5' in solvers else '--z3', '--outfile', ffile] + list(extra_cbmc) + sel + [b], cwd=workdir, timeout=120)
        raw = []
        if os.path.exists(ffile):
            for sv_ in ('z3', 'z3-new', 'cvc5'):
                tag = {'z3': 'z3', 'z3-new': 'z3new', 'cvc5': 'cvc5'}[sv_]
                if tag in solvers and shutil.which(sv_):
                    raw.append((tag, _popen([sv_, ffile], workdir)))
        ans = None
        while raw and time.time() < deadline and ans is None:
            for sv_, p_ in list(raw):
                if p_.poll() is None:
                    continue
                raw.remove((sv_, p_))
                o = p_.stdout.read().decode('utf-8', 'replace')
                first = o.strip().splitlines()[0].strip() if o.strip() else ''
                logs.append('--- raw %s: %s' % (sv_, first))
                if first in ('sat', 'unsat'):
                    ans = (sv_, first)
                    break
            if ans is None and raw:
                time.sleep(0.05)
        for sv_, p_ in raw:
            _kill(p_)
        if ans:
            sv_, first = ans
            st_ = 'SUCCESS' if first == 'unsat' else 'FAILURE'
            if first == 'unsat':
                winner = (sv_ + '(raw)', [(pid, d, 'SUCCESS') for pid, d in props if pid in main_ids])
            else:
                r.obligations = [(pid, d, 'UNKNOWN') for pid, d in props if pid in main_ids and pid.startswith(prefixes)]
                r.backend = sv_ + '(raw)'
                r.failed = ['<at least one of %d obligations; the solver returned sat but its model is not readable by CBMC>' % len(main_ids)]
                r.status, r.detail = 'refuted', 'raw solver answered sat on the conjunction of all obligations'
    if r.status == 'refuted':
        pass
    elif winner is None:
        r.status, r.detail = 'undecided', 'no solver gave a definitive answer within %ds' % timeout
    else:
        sv, res = winner
        own = [x for x in res if x[0].startswith(prefixes)]
        lib = [x for x in res if x not in own]
        r.obligations, r.library_checks, r.backend = own, len(lib), sv
        r.failed = [x[0] for x in own + lib if x[2] == 'FAILURE']
        if not own:
            r.status, r.detail = 'vacuous', 'no obligations generated for %s' % (prefixes,)
        elif r.failed:
            r.status, r.detail = 'refuted', ','.join(r.failed)
        else:
            r.status, r.detail = 'discharged', ''
    # canary
    if cprocs:
        cdead = time.time() + canary_timeout
        r.canary = 'undecided'
        live = list(cprocs)
        while live and time.time() < cdead and r.canary == 'undecided':
            for sv_, p_ in list(live):
                if p_.poll() is None:
                    continue
                live.remove((sv_, p_))
                o = p_.stdout.read().decode('utf-8', 'replace')
                if sv_ == 'sat':
                    cres = [x for x in parse_cbmc(o) if x[0] in canary_ids]
                    if cres and cres[0][2] == 'FAILURE':
                        r.canary = 'reachable'
                    elif cres and cres[0][2] == 'SUCCESS':
                        r.canary = 'unreachable'
                else:
                    first = o.strip().splitlines()[0].strip() if o.strip() else ''
                    if first == 'sat':
                        r.canary = 'reachable'
                    elif first == 'unsat':
                        r.canary = 'unreachable'
            if r.canary == 'undecided' and live:
                time.sleep(0.05)
        for sv_, p_ in live:
            _kill(p_)
            try:
                p_.stdout.read()
            except Exception:
                pass
        if r.canary == 'unreachable' and r.status == 'discharged':
            r.status, r.detail = 'vacuous', 'canary unreachable: preconditions/axioms contradictory'
    r.log = '\n'.join(logs)
    r.seconds = time.time() - t0
    return r


def _solver_flag(sv):
    global _z3env
    if sv == 'cvc5':
        return ['--cvc5'], None
    if sv == 'z3':
        return ['--z3'], None
    if sv == 'z3new':
        if _z3env is None:
            _z3env = z3new_env() or False
        if not _z3env:
            return None, None
        return ['--z3'], _z3env
    return [], None


def _split_solve(r, t0, workdir, name, b, props, main_ids, canary_ids, prefixes, solvers, extra_cbmc, timeout, smt,
                 expect_canary, canary_timeout, cc, gi, workers):
    """obligations are solved in separate cbmc runs (key obligations one by one, routine checks in chunks): one huge
    all-properties query was found to time out where every obligation alone is decided in seconds"""
    from concurrent.futures import ThreadPoolExecutor
    key = [p for p in main_ids if re.search(r'\.(postcondition|loop_invariant_step|loop_invariant_base|precondition|assertion)\.', p)]
    rest = [p for p in main_ids if p not in key]
    chunks = [[p] for p in key] + [rest[i:i + 12] for i in range(0, len(rest), 12)]
    desc = dict(props)
    r.cmd = ' '.join(cc) + ' && ' + ' '.join(gi) + ' && cbmc --%s --property <one obligation or chunk> %s   (split mode)' % ('|'.join(solvers), os.path.basename(b))
    logs = []

    def solve(chunk):
        sel = []
        for p in chunk:
            sel += ['--property', p]
        last = 'undecided'
        for sv in solvers:
            flag, env = _solver_flag(sv)
            if flag is None:
                continue
            rc, o, s_, to = run(['cbmc'] + flag + list(extra_cbmc) + sel + [b], cwd=workdir, timeout=timeout if sv == solvers[0] else min(timeout, 150), env=env)
            if to:
                last = 'timeout'
                continue
            res = [x for x in parse_cbmc(o) if x[0] in chunk]
            if len(res) == len(chunk) and all(x[2] in ('SUCCESS', 'FAILURE') for x in res) and not any(b_ in o for b_ in BAD_LOG):
                return sv, res, None
            last = 'solver error/unknown'
            logs.append('--- %s on %s\n%s' % (sv, chunk[0], o[-1500:]))
        return None, [(p, desc.get(p, ''), 'UNKNOWN') for p in chunk], last

    cproc = None
    if expect_canary and canary_ids:
        cfile = os.path.join(workdir, name + '.canary.smt2')
        run(['cbmc', '--z3' if 'cvc5' not in solvers else '--cvc5', '--outfile', cfile] + list(extra_cbmc) + ['--property', canary_ids[0], b], cwd=workdir, timeout=120)
    with ThreadPoolExecutor(max_workers=workers) as ex:
        outs = list(ex.map(solve, chunks))
        retry = [[p] for (sv, res, why), ch in zip(outs, chunks) if sv is None and len(ch) > 1 for p in ch]
        if retry:
            outs = [o_ for o_, ch in zip(outs, chunks) if not (o_[0] is None and len(ch) > 1)] + list(ex.map(solve, retry))
    allres, backends, undec = [], set(), []
    for sv, res, why in outs:
        allres += res
        if sv:
            backends.add(sv)
        else:
            undec.append('%s (%s)' % (res[0][0], why))
    own = [x for x in allres if x[0].startswith(prefixes)]
    lib = [x for x in allres if x not in own]
    r.obligations, r.library_checks, r.backend = own, len(lib), '+'.join(sorted(backends)) or None
    r.failed = [x[0] for x in allres if x[2] == 'FAILURE']
    if r.failed:
        r.status, r.detail = 'refuted', ','.join(r.failed)
    elif undec:
        r.status, r.detail = 'undecided', 'no answer for: ' + '; '.join(undec[:5])
    elif not own:
        r.status, r.detail = 'vacuous', 'no obligations generated'
    else:
        r.status, r.detail = 'discharged', ''
    # canary through the raw solvers
    if expect_canary and canary_ids:
        r.canary = 'undecided'
        cfile = os.path.join(workdir, name + '.canary.smt2')
        if os.path.exists(cfile):
            cps = [(sv_, _popen([sv_, cfile], workdir)) for sv_ in ('z3', 'z3-new', 'cvc5') if shutil.which(sv_)]
            cdead = time.time() + canary_timeout
            while cps and time.time() < cdead and r.canary == 'undecided':
                for sv_, p_ in list(cps):
                    if p_.poll() is None:
                        continue
                    cps.remove((sv_, p_))
                    o = p_.stdout.read().decode('utf-8', 'replace')
                    first = o.strip().splitlines()[0].strip() if o.strip() else ''
                    if first == 'sat':
                        r.canary = 'reachable'
                    elif first == 'unsat':
                        r.canary = 'unreachable'
                if r.canary == 'undecided' and cps:
                    time.sleep(0.05)
            for sv_, p_ in cps:
                _kill(p_)
        if r.canary == 'unreachable' and r.status == 'discharged':
            r.status, r.detail = 'vacuous', 'canary unreachable: preconditions/axioms contradictory'
    r.log = '\n'.join(logs)
    r.seconds = time.time() - t0
    return r


def _short_trace(t, keep=60, idents=None):
    """state assignments of a CBMC trace to program / ghost variables (identifiers of the unit text), without the instrumentation noise"""
    ls = []
    for l in t.splitlines():
        m = re.match(r'^  ([A-Za-z_]\w*)(\[[^\]]*\])?(\.\w+)*=', l)
        if not m or (idents is not None and m.group(1) not in idents) or m.group(1) in ('set', 'ptr', 'size', 'idx', 'car'):
            continue
        ls.append(re.sub(r' \([01 ]+\)$', '', l)[:200])
    return 'trace (assignments to program/ghost variables, last %d of %d):\n' % (min(keep, len(ls)), len(ls)) + '\n'.join(ls[-keep:]) + '\n'


def _small_scope_refute(r, workdir, name, harness_file, entry, enforce, replace, loop_contracts, extra_instr, nondet_static, defines, small, prefixes):
    """Refutation pass for an UNDECIDED function: the SAME extracted code and the SAME contracts, compiled with small container capacities
    (small = {'KMAX': 4, ...}) after vf/finite.py has expanded every quantifier of the contract text into a finite conjunction / disjunction
    over those capacities, checked with the SAT back end (exact for quantifier-free text, prints a trace).  A FAILED obligation is a genuine
    counterexample of the contract (a state with at most that many handles / names / objects); all-SUCCESS proves nothing and the function
    stays undecided."""
    import finite, glob
    inc = os.path.join(workdir, name + '.small_inc')
    os.makedirs(inc, exist_ok=True)
    files = glob.glob(os.path.join(LIB, '*.h')) + glob.glob(os.path.join(CONTRACTS, '*.h')) + glob.glob(os.path.join(workdir, '*.c')) + glob.glob(os.path.join(workdir, '*.h'))
    caps = {}
    for fpath in files:
        for m in re.finditer(r'^\s*#\s*define\s+(\w+)\s+(\d+)\s*$', open(fpath, errors='replace').read(), re.M):
            caps.setdefault(m.group(1), int(m.group(2)))
    caps.update({k_: v_ for k_, v_ in small.items() if not k_.startswith('_')})
    nq = 0
    for fpath in files:
        t = open(fpath, errors='replace').read()
        if 'CPROVER_forall' in t or 'CPROVER_exists' in t:
            try:
                t, k = finite.expand(t, caps, finite.default_loopvar_bound)
                nq += k
            except finite.FiniteBreak:
                pass          # left as it is; if the unit really includes it the survivor test below stops the pass
        open(os.path.join(inc, os.path.basename(fpath)), 'w').write(t)
    small_defs = ['%s=%d' % kv for kv in sorted(small.items()) if not kv[0].startswith('_')]
    a = os.path.join(workdir, name + '.small.a.gb')
    b = os.path.join(workdir, name + '.small.b.gb')
    cc = ['goto-cc', '-I', inc, '--function', entry] + ['-D' + d for d in list(defines) + small_defs] + [os.path.join(inc, os.path.basename(harness_file)), '-o', a]
    rc, pp, s_, to = run(['gcc', '-E', '-P', '-I', inc] + ['-D' + d for d in list(defines) + small_defs] + [os.path.join(inc, os.path.basename(harness_file))], cwd=inc, timeout=120)
    if rc != 0 or 'CPROVER_forall' in pp or 'CPROVER_exists' in pp:
        r.log += '\n--- small-scope: a quantifier survives the finite expansion (or preprocessing failed); pass not run\n'
        return
    rc, out, s_, to = run(cc, cwd=inc, timeout=300)
    if rc != 0:
        r.log += '\n--- small-scope: goto-cc failed\n' + out[-1500:]
        return
    gi = ['goto-instrument', '--dfcc', entry] + (['--enforce-contract', enforce] if enforce else [])
    for g in replace:
        gi += ['--replace-call-with-contract', g]
    if loop_contracts:
        gi += ['--apply-loop-contracts']
    if nondet_static:
        gi += ['--nondet-static']
    gi += list(extra_instr) + [a, b]
    rc, out, s_, to = run(gi, cwd=workdir, timeout=600)
    if rc != 0:
        r.log += '\n--- small-scope: goto-instrument failed\n' + out[-1500:]
        return
    props, plog = list_properties(b, workdir, timeout=600)
    key = [p_ for p_, d_ in props if p_.startswith(prefixes) and not d_.strip().endswith('canary') and re.search(r'postcondition|loop_invariant|precondition|assertion|loop_step|loop_decreases', p_)]
    if not key:
        r.log += '\n--- small-scope: no key obligations found\n'
        return
    sel = []
    for p_ in key:
        sel += ['--property', p_]
    # the key obligations only (contract clauses, loop invariants, callee preconditions, assertions), stop at the first counterexample
    sstmo = int(os.environ.get('VF_SS_TIMEOUT', '600'))
    if small.get('_smt'):
        # units over exact reals (__CPROVER_rational) cannot go to the SAT back end: the quantifier-free text is sent to the SMT solvers one after
        # the other; only an answer whose model CBMC can read back (a printed trace) is used
        for flag in (['--z3'], ['--cvc5']):
            rc, o, s_, to = run(['cbmc'] + flag + ['--stop-on-fail', '--trace'] + sel + [b], cwd=workdir, timeout=sstmo // 2)
            if not to and ('VERIFICATION FAILED' in o or 'VERIFICATION SUCCESSFUL' in o):
                break
    else:
        rc, o, s_, to = run(['cbmc', '--stop-on-fail', '--trace'] + sel + [b], cwd=workdir, timeout=sstmo)
    vm = re.search(r'Violated property:\n(.*?)\n\s*\n', o, re.S)
    r.log += '\n--- small-scope refutation pass (%s; %d quantifiers expanded; %s, --stop-on-fail over %d key obligations): %s\n' % (
        ' '.join(small_defs), nq, 'SMT z3/cvc5' if small.get('_smt') else 'SAT', len(key), 'timeout' if to else ('counterexample' if 'VERIFICATION FAILED' in o else 'no counterexample at this scope' if 'VERIFICATION SUCCESSFUL' in o else 'no answer'))
    if 'VERIFICATION FAILED' in o and vm and not to:
        desc = ' '.join(vm.group(1).split())
        fm = re.search(r'line (\d+)', desc)
        idents = set(re.findall(r'[A-Za-z_]\w*', ' '.join(open(os.path.join(inc, f_), errors='replace').read() for f_ in os.listdir(inc) if f_.endswith('.c') or 'spec' in f_)))
        r.log += 'Violated obligation: ' + desc[:1200] + '\n' + _short_trace(o, idents=idents)
        r.status = 'refuted'
        r.failed = ['%s: %s' % (prefixes[0], re.sub(r'^file \S+ ', '', desc)[:300])]
        r.detail = 'counterexample at small container capacity (%s): %s' % (' '.join(small_defs), r.failed[0][:200])
        r.cmd = ' '.join(cc) + ' && ' + ' '.join(gi) + ' && cbmc --stop-on-fail --trace --property <key obligations> (SAT; quantifiers expanded by vf/finite.py)'
        r.backend = (r.backend or '') + '+sat(small-scope)'
