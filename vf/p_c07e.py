"""C07 (Euler part): eval_g_* gradient evaluators of euler_1d/2d/3d against the jets of the exact fields"""
from numeric import Unit, run_numeric, replay_file

SEL = r'^eval_g_'


def units():
    return [Unit('euler_1d', 'euler.cpp', 'euler.spec.h', defines=['UNIT_euler_1d 1'], select=SEL),
            Unit('euler_2d', 'euler.cpp', 'euler.spec.h', defines=['UNIT_euler_2d 1'], select=SEL),
            Unit('euler_3d', 'euler.cpp', 'euler.spec.h', defines=['UNIT_euler_3d 1'], select=SEL)]


def run(tier, seed):
    return run_numeric('C07e', units(), tier, seed, design_ref='4/C07')


replay = replay_file
