#!/usr/bin/env python3
"""xstl -- mechanical extraction of the string / store / registry functions (masa_map.cpp, masa_class.cpp,
masa_core.cpp, cmasa.cpp) to C over the contract-bearing interfaces lib/vstr.h and lib/vstl.h (DESIGN.md 3.1).

Token-level rewriting with a rule table; statement order, control flow, conditions and expressions of the MASA
functions are untouched.  Every C++ token the table does not consume aborts with ExtractionBreak."""
import re, hashlib
from xtract import tokenize, strip_comments, match_close, match_brace_text, ExtractionBreak


def find_free_function(src, qualname):
    """-> (return type text, args text, body text) of the first definition  RET qualname(args) [const] { body }"""
    s = strip_comments(src)
    for m in re.finditer(r'(?<![\w:])%s\s*\(' % re.escape(qualname), s):
        i = m.end()
        depth = 1
        while depth:
            if s[i] == '(':
                depth += 1
            elif s[i] == ')':
                depth -= 1
            i += 1
        args = s[m.end():i - 1]
        j = i
        while s[j] in ' \t\r\n':
            j += 1
        if s.startswith('const', j):
            j += 5
            while s[j] in ' \t\r\n':
                j += 1
        if s[j] != '{':
            continue
        end = match_brace_text(s, j + 1)
        k = m.start()
        line0 = s.rfind('\n', 0, k)
        ret = s[line0 + 1:k].strip()
        if not ret:
            prev = s.rfind('\n', 0, line0)
            ret = s[prev + 1:line0].strip()
        return ret, args, s[j + 1:end - 1]
    raise ExtractionBreak('definition of %s not found' % qualname)


def tv(toks):
    return [t[1] for t in toks]


def splice_loop_contracts(toks, fname):
    """insert LOOP_<fname>_<k> after the header of the k-th for/while loop (k counts from 1 in source order)"""
    out = []
    i = 0
    k = 0
    n = 0
    while i < len(toks):
        if toks[i][1] in ('for', 'while') and toks[i][0] == 'id' and toks[i + 1][1] == '(':
            j = match_close(toks, i + 1)
            # skip the while of do-while (followed by ';')
            if toks[i][1] == 'while' and j + 1 < len(toks) and toks[j + 1][1] == ';':
                out += toks[i:j + 1]
                i = j + 1
                continue
            k += 1
            out += toks[i:j + 1] + [('id', 'LOOP_%s_%d' % (fname, k))]
            i = j + 1
            n += 1
            continue
        out.append(toks[i])
        i += 1
    return out, n


def render(toks):
    text = ''
    for k, v in toks:
        if k == 'nl':
            text = text.rstrip(' ') + '\n'
        else:
            text += v + ' '
    return re.sub(r'\n{3,}', '\n\n', text)


def vet(toks, fname, allowed_ids=None):
    for k, v in toks:
        if k == 'op' and v in ('::', '<<', '>>', '#', '~'):
            raise ExtractionBreak('%s: C++ token %r not covered by the rule table' % (fname, v))
        if k == 'str':
            raise ExtractionBreak('%s: string literal %s not consumed by a rule' % (fname, v))
        if k == 'id' and v in ('std', 'new', 'delete', 'template', 'try', 'catch', 'throw', 'this', 'typename', 'const_iterator', 'iterator'):
            raise ExtractionBreak('%s: C++ identifier %r not covered by the rule table' % (fname, v))
        if allowed_ids is not None and k == 'id' and v not in allowed_ids and not v.startswith('LOOP_'):
            raise ExtractionBreak('%s: identifier %r is not known to the rule table' % (fname, v))


# ------------------------------------------------------------------ masa_map.cpp (string functions)

def rewrite_string_fn(body, fname, ref_strs, ptr_strs, local_str_fns):
    """ref_strs: names of std::string& parameters; ptr_strs: std::string* parameters;
    local_str_fns: names of functions taking std::string& (calls get & on local string arguments)"""
    hits = {}

    def hit(r):
        hits[r] = hits.get(r, 0) + 1

    toks = tokenize(body)
    # std:: removal (keeping std::string::npos and std::tolower recognisable first)
    out = []
    i = 0
    local_strs = set()
    while i < len(toks):
        v = tv(toks[i:i + 12])
        # int(std::string::npos)
        if v[:8] == ['int', '(', 'std', '::', 'string', '::', 'npos', ')']:
            out.append(('id', 'VNPOS_INT'))
            hit('npos')
            i += 8
            continue
        # char(std::tolower(E))
        if v[:6] == ['char', '(', 'std', '::', 'tolower', '(']:
            j = match_close(toks, i + 5)
            if toks[j + 1][1] != ')':
                raise ExtractionBreak('%s: char(std::tolower(..)) shape' % fname)
            out += [('op', '('), ('id', 'char'), ('op', ')'), ('id', 'vtolower'), ('op', '(')] + toks[i + 6:j] + [('op', ')')]
            hit('tolower')
            i = j + 2
            continue
        # std::string NAME ;
        if v[:3] == ['std', '::', 'string'] and toks[i + 3][0] == 'id' and toks[i + 4][1] == ';':
            out += [('id', 'vstr'), toks[i + 3], ('op', ';')]
            local_strs.add(toks[i + 3][1])
            hit('local')
            i += 5
            continue
        out.append(toks[i])
        i += 1
    toks = out
    # member operations on string references / locals
    out = []
    i = 0

    def sref(name):
        if name in ref_strs or name in ptr_strs:
            return [('id', name)]
        if name in local_strs:
            return [('op', '&'), ('id', name)]
        return None

    while i < len(toks):
        k, v = toks[i]
        nm = v if k == 'id' else None
        if nm and (nm in ref_strs or nm in local_strs) and i + 1 < len(toks):
            n1 = toks[i + 1][1]
            if n1 == '.' and toks[i + 2][1] == 'length' and toks[i + 3][1] == '(' and toks[i + 4][1] == ')':
                acc = '->' if nm in ref_strs else '.'
                out += [('op', '('), ('op', '('), ('id', 'unsigned'), ('op', ')'), ('id', nm), ('op', acc), ('id', 'len'), ('op', ')')]
                hit('length')
                i += 5
                continue
            if n1 == '.' and toks[i + 2][1] == 'find' and toks[i + 3][1] == '(':
                j = match_close(toks, i + 3)
                inner = toks[i + 4:j]
                if not inner or inner[0][0] != 'str' or len(inner[0][1]) != 3:
                    raise ExtractionBreak('%s: find() with a non single-character needle' % fname)
                ch = "'%s'" % inner[0][1][1]
                if len(inner) == 1:
                    frm = [('num', '0')]
                elif inner[1][1] == ',':
                    frm = inner[2:]
                else:
                    raise ExtractionBreak('%s: find() shape' % fname)
                out += [('id', 'vstr_find')] + [('op', '(')] + sref(nm) + [('op', ','), ('chr', ch), ('op', ',')] + frm + [('op', ')')]
                hit('find')
                i = j + 1
                continue
            if n1 == '.' and toks[i + 2][1] == 'replace' and toks[i + 3][1] == '(':
                j = match_close(toks, i + 3)
                inner = toks[i + 4:j]
                vals = tv(inner)
                if vals[-4:] != [',', '1', ',', '""']:
                    raise ExtractionBreak('%s: replace() is not replace(pos, 1, "")' % fname)
                out += [('id', 'vstr_erase1'), ('op', '(')] + sref(nm) + [('op', ',')] + inner[:-4] + [('op', ')')]
                hit('erase1')
                i = j + 1
                continue
            if n1 == '[':
                j = match_close(toks, i + 1, '[', ']')
                acc = '->' if nm in ref_strs else '.'
                out += [('id', nm), ('op', acc), ('id', 'd'), ('op', '[')] + toks[i + 2:j] + [('op', ']')]
                hit('index')
                i = j + 1
                continue
        # calls f(localstring) -> f(&localstring)
        if nm and nm in local_str_fns and toks[i + 1][1] == '(' and toks[i + 2][0] == 'id' and toks[i + 3][1] == ')':
            a = toks[i + 2][1]
            r_ = sref(a)
            if r_ is None:
                raise ExtractionBreak('%s: call %s(%s): argument is not a string object' % (fname, nm, a))
            out += [('id', nm), ('op', '(')] + r_ + [('op', ')')]
            hit('call')
            i += 4
            continue
        out.append(toks[i])
        i += 1
    toks = out
    toks, nloops = splice_loop_contracts(toks, fname)
    hits['loops'] = nloops
    for idx, (k, v) in enumerate(toks):
        if k == 'chr':
            toks[idx] = ('num', v)
    vet(toks, fname)
    return render(toks), hits


def extract_masa_map(src_path):
    src = open(src_path).read()
    fns = []
    spec = [('uptolow', 'MASA::uptolow', 'void', 'vstr *str', {'str'}, set()),
            ('remove_line', 'MASA::remove_line', 'void', 'vstr *str', {'str'}, set()),
            ('remove_whitespace', 'MASA::remove_whitespace', 'void', 'vstr *str', {'str'}, set()),
            ('masa_map', 'MASA::masa_map', 'int', 'vstr *input_string', set(), {'input_string'})]
    o = []
    info = []
    for name, qual, ret, sig, refs, ptrs in spec:
        r, args, body = find_free_function(src, qual)
        a = re.sub(r'\s+', ' ', args.strip())
        want = {'uptolow': 'std::string& str', 'remove_line': 'std::string& str', 'remove_whitespace': 'std::string& str',
                'masa_map': 'std::string* input_string'}[name]
        if a != want:
            raise ExtractionBreak('%s: signature changed: (%s)' % (name, a))
        c, hits = rewrite_string_fn(body, name, refs, ptrs, {'uptolow', 'remove_line', 'remove_whitespace'})
        sha = hashlib.sha256(body.encode()).hexdigest()
        info.append({'function': name, 'sha256': sha, 'hits': hits})
        o.append('/* %s  sha256(source body)=%s */\n%s %s(%s)\nCONTRACT_%s\n{%s}\n' % (qual, sha, ret, name, sig, name, c))
    return '\n'.join(o), info
