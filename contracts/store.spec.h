/* store.spec.h -- contracts for the parameter store of manufactured_solution<Scalar> (masa_class.cpp), property C11
 * (and the constructor / index-bounds obligations of C19).  Representation invariant STORE_WF + per-function contracts;
 * the "any history" quantifier of C11 is discharged by induction over the API: every function assumes STORE_WF and
 * re-establishes it.  Quantified (z3). */

/* ---- state of one manufactured_solution object ---- */
Sc heap[HMAX];                 /* abstract scalar heap: HEAP(a) is *a for a Scalar* a */
int vecval[VMAXV];             /* abstract value (length+contents) of each std::vector<Scalar> object */
#define HEAP(a) heap[a]
#define ADDR_dummy 0
#define dummy heap[ADDR_dummy]
#define ADDR_LOCAL_dumvec 0    /* the constructor's local std::vector (its address escapes into vecarr[0]: see C19 note) */
int veclen[VMAXV];             /* length of each std::vector<Scalar> object (part of its value, kept beside vecval) */
int __CPROVER_uninterpreted_vecval_resized(int, int);
#define VEC_RESIZE(a, n) (vecval[a] = __CPROVER_uninterpreted_vecval_resized(vecval[a], n), veclen[a] = (n))
#define VEC_COPY(dst, src) vf_vec_copy(dst, src)      /* std::vector copy-assignment: contents and length */
int __CPROVER_uninterpreted_vecval_prefix(int, int);
/* std::copy(src.begin(), src.end(), dst.begin()): dst keeps its length; its value equals src's only when the lengths agree (a shorter dst is undefined behaviour: obligation) */
#define VEC_COPY_PREFIX(dst, src) (__CPROVER_assert(veclen[src] <= veclen[dst], "std::copy stays inside the destination vector"), \
   vecval[dst] = (veclen[dst] == veclen[src] ? vecval[src] : __CPROVER_uninterpreted_vecval_prefix(vecval[src], vecval[dst])))
static void vf_vec_copy(int dst, int src) { int s_ = src; vecval[dst] = vecval[s_]; veclen[dst] = veclen[s_]; }
int num_vars, num_vec;
VMAP_DECLARE(varmap)
VMAP_DECLARE(vecmap)
VVEC_DECLARE(vararr)
VVEC_DECLARE(vecarr)
Sc MASA_VAR_DEFAULT, MASA_VAR_DEFAULT_INV;   /* pinned by DEFAULT_OK to the exact fraction of the initialiser in masa_class.cpp (MVD_NUM/MVD_DEN, #defined by the
                                               driver from the source) and its reciprocal; globals because a rational '/' inside a loop body crashes goto-instrument */
Sc vf_eps;
#define VF_EPS() vf_eps
Sc vf_one;                     /* == 1; literals are written vf_one*n/d here because a call to LITf() before a loop crashes goto-instrument's loop-assigns analysis on the width-less rational type */
#undef LIT
#define LIT(n, d) (vf_one * (n) / (d))
#define DEFAULT_OK (vf_eps > 0 && vf_one == 1 && MASA_VAR_DEFAULT * (MVD_DEN) == (MVD_NUM) && MASA_VAR_DEFAULT_INV * (MVD_NUM) == (MVD_DEN))

#define SLOT(k) vararr_p[varmap_val[k]]
#define VSLOT(k) vecarr_p[vecmap_val[k]]

#define MAP_WF(M, A, N, AMAX, q1, q2, q3, q4) \
  (0 <= N && N < VMAXV - 2 && A##_n == N + 1 && M##_size == N && M##_size < KMAX - 1 && \
   (__CPROVER_forall { int q1; (0 <= q1 && q1 < KMAX && M##_present[q1]) ==> (1 <= M##_val[q1] && M##_val[q1] <= N) }) && \
   (__CPROVER_forall { int q2; (1 <= q2 && q2 <= N) ==> (1 <= A##_p[q2] && A##_p[q2] < AMAX) }) && \
   (__CPROVER_forall { int q3; __CPROVER_forall { int q4; (0 <= q3 && q3 < KMAX && 0 <= q4 && q4 < KMAX && q3 != q4 && M##_present[q3] && M##_present[q4]) \
        ==> (M##_val[q3] != M##_val[q4] && A##_p[M##_val[q3]] != A##_p[M##_val[q4]]) } }))
/* the part of the invariant that read-only / value-only functions need (no injectivity) */
#define MAP_WF_LIGHT(M, A, N, AMAX, q1, q2) \
  (0 <= N && N < VMAXV - 2 && A##_n == N + 1 && M##_size == N && \
   (__CPROVER_forall { int q1; (0 <= q1 && q1 < KMAX && M##_present[q1]) ==> (1 <= M##_val[q1] && M##_val[q1] <= N) }) && \
   (__CPROVER_forall { int q2; (1 <= q2 && q2 <= N) ==> (1 <= A##_p[q2] && A##_p[q2] < AMAX) }))
#define STORE_WF_LIGHT (DEFAULT_OK && MAP_WF_LIGHT(varmap, vararr, num_vars, HMAX, y1, y2))
#define VEC_WF_LIGHT (MAP_WF_LIGHT(vecmap, vecarr, num_vec, VMAXV, z1, z2))
#define STORE_WF (DEFAULT_OK && vararr_p[0] == ADDR_dummy && MAP_WF(varmap, vararr, num_vars, HMAX, w1, w2, w3, w4))
#define VEC_WF (MAP_WF(vecmap, vecarr, num_vec, VMAXV, x1, x2, x3, x4))

#define MSG_ERROR(m) (((m) & 2) != 0)
#define MSG_FATAL(m) (((m) & 4) != 0)

/* ---- get_var: value of the named parameter, or -20 + error message for an unknown name; changes nothing ---- */
#define CONTRACT_store__get_var \
  __CPROVER_requires(STORE_WF_LIGHT && KEY_OK(var)) \
  __CPROVER_assigns(ghost_msg) \
  __CPROVER_ensures(varmap_present[var] ? (__CPROVER_return_value == heap[SLOT(var)] && ghost_msg == __CPROVER_old(ghost_msg)) \
                                        : (__CPROVER_return_value == -20 && MSG_ERROR(ghost_msg)))

/* ---- set_var: known name -> that parameter == val, every other heap cell (hence every other parameter) unchanged, returns 0;
 *               unknown name -> nothing changes, returns 1 ---- */
#define CONTRACT_store__set_var \
  __CPROVER_requires(STORE_WF && KEY_OK(var) && KEY_OK(ghost_w)) \
  __CPROVER_assigns(ghost_msg) \
  __CPROVER_assigns(varmap_present[var]: heap[SLOT(var)]) \
  __CPROVER_ensures(varmap_present[var] ? (__CPROVER_return_value == 0 && heap[SLOT(var)] == val && ghost_msg == __CPROVER_old(ghost_msg)) \
                                        : (__CPROVER_return_value == 1 && MSG_ERROR(ghost_msg))) \
  __CPROVER_ensures((varmap_present[ghost_w] && ghost_w != var) ==> heap[SLOT(ghost_w)] == __CPROVER_old(heap)[SLOT(ghost_w)])

/* ---- register_var: fresh name -> appended with index num_vars+1, slot address recorded, value = marker, WF kept;
 *                    name already registered -> returns 1, nothing changes ---- */
#define CONTRACT_store__register_var \
  __CPROVER_requires(STORE_WF && KEY_OK(in) && 1 <= var && var < HMAX && num_vars < VMAXV - 4) \
  __CPROVER_requires(__CPROVER_forall { int r1; (1 <= r1 && r1 <= num_vars) ==> vararr_p[r1] != var }) \
  __CPROVER_assigns(ghost_msg, num_vars, varmap_present[in], varmap_val[in], varmap_size, vararr_n, vararr_p[vararr_n], heap[var]) \
  __CPROVER_ensures(__CPROVER_old(varmap_present[in]) \
      ? (__CPROVER_return_value == 1 && MSG_FATAL(ghost_msg) && num_vars == __CPROVER_old(num_vars) && varmap_val[in] == __CPROVER_old(varmap_val[in]) && \
         varmap_size == __CPROVER_old(varmap_size) && vararr_n == __CPROVER_old(vararr_n) && heap[var] == __CPROVER_old(heap[var])) \
      : (__CPROVER_return_value == 0 && num_vars == __CPROVER_old(num_vars) + 1 && varmap_present[in] && varmap_val[in] == num_vars && \
         vararr_p[num_vars] == var && heap[var] == MASA_VAR_DEFAULT && ghost_msg == __CPROVER_old(ghost_msg))) \
  __CPROVER_ensures(STORE_WF)

/* ---- constructor: every bookkeeping member initialised; empty store is well formed ---- */
#define CONTRACT_store__ctor \
  __CPROVER_requires(DEFAULT_OK && vararr_n == 0 && vecarr_n == 0 && varmap_size == 0 && vecmap_size == 0) \
  __CPROVER_requires(__CPROVER_forall { int c1; (0 <= c1 && c1 < KMAX) ==> (!varmap_present[c1] && !vecmap_present[c1]) }) \
  __CPROVER_assigns(num_vars, num_vec, heap[ADDR_dummy], vecval[ADDR_LOCAL_dumvec], veclen[ADDR_LOCAL_dumvec], vararr_n, vararr_p[0], vecarr_n, vecarr_p[0]) \
  __CPROVER_ensures(num_vars == 0 && num_vec == 0 && vararr_n == 1 && vecarr_n == 1 && vararr_p[0] == ADDR_dummy) \
  __CPROVER_ensures(STORE_WF && VEC_WF)

/* ---- purge_var: every registered parameter becomes the marker; no other cell changes to anything else ---- */
#define CONTRACT_store__purge_var \
  __CPROVER_requires(STORE_WF_LIGHT) \
  __CPROVER_assigns(__CPROVER_object_whole(heap)) \
  __CPROVER_ensures(__CPROVER_return_value == 0) \
  __CPROVER_ensures(__CPROVER_forall { int p1; (0 <= p1 && p1 < KMAX && varmap_present[p1]) ==> heap[SLOT(p1)] == MASA_VAR_DEFAULT }) \
  __CPROVER_ensures(__CPROVER_forall { int p2; (0 <= p2 && p2 < HMAX) ==> (heap[p2] == __CPROVER_old(heap)[p2] || heap[p2] == MASA_VAR_DEFAULT) })
#define LOOP_store__purge_var_1 \
  __CPROVER_assigns(it, __CPROVER_object_whole(heap)) \
  __CPROVER_loop_invariant(0 <= it && it <= VEND && (it < VEND ==> varmap_present[it])) \
  __CPROVER_loop_invariant(__CPROVER_forall { int p3; (0 <= p3 && p3 < KMAX && p3 < it && varmap_present[p3]) ==> heap[SLOT(p3)] == MASA_VAR_DEFAULT }) \
  __CPROVER_loop_invariant(__CPROVER_forall { int p4; (0 <= p4 && p4 < HMAX) ==> (heap[p4] == __CPROVER_loop_entry(heap)[p4] || heap[p4] == MASA_VAR_DEFAULT) }) \
  __CPROVER_decreases(VEND - it)

/* ---- sanity_check: 1 as soon as some registered scalar is (within 1e-10 relative of) the marker or some registered vector is
 *      empty; 0 when no scalar is within that band and no vector is empty; never the fatal branch on a well-formed store ---- */
#define NEAR_DEFAULT(v) (((v) - MASA_VAR_DEFAULT) * 10000000000 < -MASA_VAR_DEFAULT && (MASA_VAR_DEFAULT - (v)) * 10000000000 < -MASA_VAR_DEFAULT)
_Bool ghost_none;   /* ghost hypothesis flag: when set, the caller asserts that no registered scalar is near the marker and no registered vector is empty */
#define NONE_FLAGGED \
  ((__CPROVER_forall { int s1; (0 <= s1 && s1 < KMAX && varmap_present[s1]) ==> !NEAR_DEFAULT(heap[SLOT(s1)]) }) && \
   (__CPROVER_forall { int s2; (0 <= s2 && s2 < KMAX && vecmap_present[s2]) ==> veclen[VSLOT(s2)] != 0 }))
#define CONTRACT_store__sanity_check \
  __CPROVER_requires(STORE_WF_LIGHT && VEC_WF_LIGHT && KEY_OK(ghost_w) && ghost_exit == 0) \
  __CPROVER_requires(ghost_none ==> NONE_FLAGGED) \
  __CPROVER_assigns(ghost_msg, ghost_exit) \
  __CPROVER_ensures(ghost_exit == 0) \
  __CPROVER_ensures(__CPROVER_return_value == 0 || __CPROVER_return_value == 1) \
  __CPROVER_ensures((varmap_present[ghost_w] && heap[SLOT(ghost_w)] == MASA_VAR_DEFAULT) ==> __CPROVER_return_value == 1) \
  __CPROVER_ensures((vecmap_present[ghost_w] && veclen[VSLOT(ghost_w)] == 0) ==> __CPROVER_return_value == 1) \
  __CPROVER_ensures(ghost_none ==> __CPROVER_return_value == 0)
#define LOOP_store__sanity_check_1 \
  __CPROVER_assigns(it, flag, ghost_msg) \
  __CPROVER_loop_invariant(0 <= it && it <= VEND && (it < VEND ==> varmap_present[it]) && 0 <= flag && flag <= it) \
  __CPROVER_loop_invariant((varmap_present[ghost_w] && ghost_w < it && heap[SLOT(ghost_w)] == MASA_VAR_DEFAULT) ==> flag >= 1) \
  __CPROVER_loop_invariant(ghost_none ==> flag == 0) \
  __CPROVER_decreases(VEND - it)
#define LOOP_store__sanity_check_2 \
  __CPROVER_assigns(it, flag, ghost_msg) \
  __CPROVER_loop_invariant(0 <= it && it <= VEND && (it < VEND ==> vecmap_present[it]) && __CPROVER_loop_entry(flag) <= flag && flag <= __CPROVER_loop_entry(flag) + it) \
  __CPROVER_loop_invariant((vecmap_present[ghost_w] && ghost_w < it && veclen[VSLOT(ghost_w)] == 0) ==> flag >= 1) \
  __CPROVER_loop_invariant(ghost_none ==> flag == 0) \
  __CPROVER_decreases(VEND - it)

/* ---- display_var / display_vec: print only ---- */
#define CONTRACT_store__display_var \
  __CPROVER_requires(STORE_WF_LIGHT) __CPROVER_assigns(ghost_msg) __CPROVER_ensures(__CPROVER_return_value == 0)
#define LOOP_store__display_var_1 \
  __CPROVER_assigns(it, ghost_msg) \
  __CPROVER_loop_invariant(0 <= it && it <= VEND && (it < VEND ==> varmap_present[it])) __CPROVER_decreases(VEND - it)
#define CONTRACT_store__display_vec \
  __CPROVER_requires(VEC_WF_LIGHT) __CPROVER_assigns(ghost_msg) __CPROVER_ensures(__CPROVER_return_value == 0)
#define LOOP_store__display_vec_1 \
  __CPROVER_assigns(it, vec, ghost_msg) \
  __CPROVER_loop_invariant(0 <= it && it <= VEND && (it < VEND ==> vecmap_present[it])) __CPROVER_decreases(VEND - it)

/* ---- vector parameters: same map discipline; set_vec/get_vec copy the whole abstract value (length included) ---- */
#define CONTRACT_store__register_vec \
  __CPROVER_requires(VEC_WF && KEY_OK(in) && 1 <= vec && vec < VMAXV && num_vec < VMAXV - 4) \
  __CPROVER_requires(__CPROVER_forall { int v1; (1 <= v1 && v1 <= num_vec) ==> vecarr_p[v1] != vec }) \
  __CPROVER_assigns(ghost_msg, num_vec, vecmap_present[in], vecmap_val[in], vecmap_size, vecarr_n, vecarr_p[vecarr_n]) \
  __CPROVER_ensures(__CPROVER_old(vecmap_present[in]) \
      ? (__CPROVER_return_value == 1 && MSG_FATAL(ghost_msg) && num_vec == __CPROVER_old(num_vec) && vecmap_val[in] == __CPROVER_old(vecmap_val[in]) && \
         vecmap_size == __CPROVER_old(vecmap_size) && vecarr_n == __CPROVER_old(vecarr_n)) \
      : (__CPROVER_return_value == 0 && num_vec == __CPROVER_old(num_vec) + 1 && vecmap_present[in] && vecmap_val[in] == num_vec && \
         vecarr_p[num_vec] == vec && ghost_msg == __CPROVER_old(ghost_msg))) \
  __CPROVER_ensures(VEC_WF)
#define VEC_ADDR_OK(a) (0 <= (a) && (a) < VMAXV)
#define CONTRACT_store__set_vec \
  __CPROVER_requires(VEC_WF && KEY_OK(var) && KEY_OK(ghost_w) && VEC_ADDR_OK(vec)) \
  __CPROVER_assigns(ghost_msg) \
  __CPROVER_assigns(vecmap_present[var]: vecval[VSLOT(var)]) \
  __CPROVER_assigns(vecmap_present[var]: veclen[VSLOT(var)]) \
  __CPROVER_ensures(vecmap_present[var] ? (__CPROVER_return_value == 0 && vecval[VSLOT(var)] == __CPROVER_old(vecval[vec]) && veclen[VSLOT(var)] == __CPROVER_old(veclen[vec]) && ghost_msg == __CPROVER_old(ghost_msg)) \
                                        : (__CPROVER_return_value == 1 && MSG_ERROR(ghost_msg))) \
  __CPROVER_ensures((vecmap_present[ghost_w] && ghost_w != var) ==> vecval[VSLOT(ghost_w)] == __CPROVER_old(vecval)[VSLOT(ghost_w)])
#define CONTRACT_store__get_vec \
  __CPROVER_requires(VEC_WF && KEY_OK(name) && VEC_ADDR_OK(vec)) \
  __CPROVER_assigns(ghost_msg) \
  __CPROVER_assigns(vecmap_present[name]: vecval[vec]) \
  __CPROVER_assigns(vecmap_present[name]: veclen[vec]) \
  __CPROVER_ensures(vecmap_present[name] ? (__CPROVER_return_value == 0 && vecval[vec] == __CPROVER_old(vecval)[VSLOT(name)] && veclen[vec] == __CPROVER_old(veclen)[VSLOT(name)] && ghost_msg == __CPROVER_old(ghost_msg)) \
                                         : (__CPROVER_return_value == 1 && MSG_ERROR(ghost_msg)))
