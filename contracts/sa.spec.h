/* sa.spec.h -- contracts for the Spalart-Allmaras solutions (property C05):
 *   rans_sa (1-D channel in eta), fans_sa_transient_free_shear, fans_sa_steady_wall_bounded.
 * Oracle: the property statement -- sources == residual of the RANS / FANS equations closed with the SA model
 * (eddy viscosity nu_sa*f_v1(chi) differentiated as a function of position, production, wall destruction,
 * conservative diffusion + c_b2 gradient-squared term) applied to the exact fields the API returns.
 * The unit defines one of UNIT_rans_sa / UNIT_fans_sa_transient_free_shear / UNIT_fans_sa_steady_wall_bounded. */
#include "roy.h"

/* ====================================================================================================== */
#if defined(UNIT_rans_sa)
/* Channel flow, wall units (nu_molecular = 1/re_tau, wall distance d = eta, eta in (0,1)):
 *     0 = ((1/re_tau + nu_t) u')' + 1                                       (streamwise momentum, dp/dx = -1)
 *     0 = cb1 S~ nu  -  cw1 fw (nu/d)^2  +  (1/sigma) [ ((1/re_tau + nu) nu')' + cb2 nu'^2 ]
 * with nu_t = nu fv1(chi), chi = nu re_tau, fv1 = chi^3/(chi^3+cv1^3), fv2 = 1 - chi/(1+chi fv1),
 * Omega = |u'|, Sbar = nu fv2/(kappa^2 d^2),
 * S~ = Omega + Sbar                                             if Sbar >= -cv2 Omega
 *    = Omega + Omega (cv2^2 Omega + cv3 Sbar)/((cv3-2cv2) Omega - Sbar)   otherwise     (Johnson-Allmaras modification)
 * r = min(nu/(S~ kappa^2 d^2), 10), g = r + cw2 (r^6 - r), fw = g ((1+cw3^6)/(g^6+cw3^6))^(1/6),
 * cw1 = cb1/kappa^2 + (1+cb2)/sigma.
 * Exact fields (returned by eval_exact_u / eval_exact_v):
 *     U(eta) = a1 eta (1 - eta/2),   NU(eta) = b1 eta - (etam+1) b1 eta^2/(2 etam) + b1 eta^3/(3 etam).
 * Jets use x as the eta direction. */
/* coefficients are bound to locals first: a LIT() call multiplied by a jet component that constant-folds (0, 1, 2)
   inside one expression trips a CBMC 6.11 simplifier invariant (std_expr.cpp operator==) under --dfcc */
#define RS_ETA JVARX(E, eta); JMUL(E2_, E, E); JMUL(E3_, E2_, E)
#define RS_U   Sc ku2_ = -LIT(1, 2) * a1; JSCALE(U1_, a1, E); JSCALE(U2_, ku2_, E2_); JADD(U, U1_, U2_)
#define RS_NU  Sc kn2_ = -(etam + 1) * b1 * vinv(2 * etam), kn3_ = b1 * vinv(3 * etam); \
  JSCALE(N1_, b1, E); JSCALE(N2_, kn2_, E2_); JSCALE(N3_, kn3_, E3_); JADD(N12_, N1_, N2_); JADD(NU, N12_, N3_)
#define RS_FIELDS RS_ETA; RS_U; RS_NU
/* eddy viscosity jet VT = NU * fv1(CHI), CHI = NU * re_tau */
#define RS_VT \
  JSCALE(CHI, re_tau, NU); JMUL(CH2_, CHI, CHI); JMUL(CH3_, CH2_, CHI); JADDC(DEN_, CH3_, cv1 * cv1 * cv1); \
  JINV(IDEN_, DEN_); JMUL(FV1, CH3_, IDEN_); JMUL(VT, NU, FV1)

static Sc rs_u(Sc eta) { RS_ETA; RS_U; return U_v; }
static Sc rs_du(Sc eta) { RS_ETA; RS_U; return U_x; }
static Sc rs_d2u(void) { Sc eta = 0; RS_ETA; RS_U; return U_xx; }   /* U'' is constant (U is quadratic): the value at any eta */
static Sc rs_nu(Sc eta) { RS_ETA; RS_NU; return NU_v; }
static Sc rs_dnu(Sc eta) { RS_ETA; RS_NU; return NU_x; }
static Sc rs_d2nu(Sc eta) { RS_ETA; RS_NU; return NU_xx; }
static Sc rs_chi(Sc eta) { RS_ETA; RS_NU; RS_VT; return CHI_v; }
static Sc rs_fv1(Sc eta) { RS_ETA; RS_NU; RS_VT; return FV1_v; }
static Sc rs_vt(Sc eta) { RS_ETA; RS_NU; RS_VT; return VT_v; }
static Sc rs_dvt(Sc eta) { RS_ETA; RS_NU; RS_VT; return VT_x; }
static Sc rs_fv2(Sc eta) { Sc c = rs_chi(eta); return 1 - c * vinv(1 + c * rs_fv1(eta)); }
static Sc rs_cw1(void) { return cb1 * vinv(kappa * kappa) + (1 + cb2) * vinv(sigma); }
static Sc rs_sbar(Sc eta) { return rs_nu(eta) * rs_fv2(eta) * vinv(kappa * kappa * eta * eta); }
static Sc rs_s(Sc eta)
{
  Sc Om = vabs(rs_du(eta)), Sb = rs_sbar(eta);
  if (Sb >= -cv2 * Om) return Om + Sb;
  return Om + Om * (cv2 * cv2 * Om + cv3 * Sb) * vinv((cv3 - 2 * cv2) * Om - Sb);
}
static Sc rs_r(Sc eta)
{
  Sc rt = rs_nu(eta) * vinv(rs_s(eta) * kappa * kappa * eta * eta);
  if (rt > 10) return 10;
  return rt;
}
static Sc rs_g(Sc eta) { Sc r_ = rs_r(eta); return r_ + cw2 * (r_ * r_ * r_ * r_ * r_ * r_ - r_); }
static Sc rs_fw(Sc eta)
{
  Sc g_ = rs_g(eta), c6 = cw3 * cw3 * cw3 * cw3 * cw3 * cw3;
  return g_ * vpow((1 + c6) * vinv(g_ * g_ * g_ * g_ * g_ * g_ + c6), LIT(1, 6));
}
static Sc rs_production(Sc eta) { return cb1 * rs_s(eta) * rs_nu(eta); }
static Sc rs_destruction(Sc eta) { Sc nd = rs_nu(eta) * vinv(eta); return rs_cw1() * rs_fw(eta) * nd * nd; }
static Sc rs_transport(Sc eta)
{ /* (1/sigma) [ ((1/re_tau + NU) NU')' + cb2 NU'^2 ]   (sub-terms bound to locals: helps the solvers) */
  RS_ETA; RS_NU; Sc ir = vinv(re_tau); JADDC(DIF_, NU, ir);
  Sc flux_x = DIF__x * NU_x + DIF__v * NU_xx;
  Sc gsq = NU_x * NU_x;
  return vinv(sigma) * (flux_x + cb2 * gsq);
}
static Sc rs_q_u(Sc eta)
{ /* ((1/re_tau + VT) U')' + 1 */
  RS_FIELDS; RS_VT; JADDC(VIS_, VT, vinv(re_tau));
  return VIS__x * U_x + VIS__v * U_xx + 1;
}
static Sc rs_q_v(Sc eta) { return rs_production(eta) - rs_destruction(eta) + rs_transport(eta); }

/* admissibility: eta in (0,1) (property quantifier); a1 > 0 is the constructor's fixed value 2 (not registered,
 * cannot be changed through the API) -- together they give Omega = |U'| = U'. */
#define RS_ADM REQ(a1 > 0 && eta > 0 && eta < 1)
#define CONTRACT_rans_sa__u_1            REQ(1) ENS_EQ(rs_u(eta)) FRAME()
#define CONTRACT_rans_sa__du_1           REQ(1) ENS_EQ(rs_du(eta)) FRAME()
#define CONTRACT_rans_sa__d2u_0          REQ(1) ENS_EQ(rs_d2u()) FRAME()
#define CONTRACT_rans_sa__nu_1           REQ(1) ENS_EQ(rs_nu(eta)) FRAME()
#define CONTRACT_rans_sa__dnu_1          REQ(1) ENS_EQ(rs_dnu(eta)) FRAME()
#define CONTRACT_rans_sa__d2nu_1         REQ(1) ENS_EQ(rs_d2nu(eta)) FRAME()
#define CONTRACT_rans_sa__chi_1          REQ(1) ENS_EQ(rs_chi(eta)) FRAME()
#define CONTRACT_rans_sa__fv1_1          REQ(1) ENS_EQ(rs_fv1(eta)) FRAME()
#define CONTRACT_rans_sa__fv2_1          REQ(1) ENS_EQ(rs_fv2(eta)) FRAME()
#define CONTRACT_rans_sa__vt_1           REQ(1) ENS_EQ(rs_vt(eta)) FRAME()
#define CONTRACT_rans_sa__dvt_1          REQ(1) ENS_EQ(rs_dvt(eta)) FRAME()
#define CONTRACT_rans_sa__cw1_0          REQ(1) ENS_EQ(rs_cw1()) FRAME()
#define CONTRACT_rans_sa__s_1            RS_ADM ENS_EQ(rs_s(eta)) FRAME()
#define CONTRACT_rans_sa__r_1            RS_ADM ENS_EQ(rs_r(eta)) FRAME()
#define CONTRACT_rans_sa__g_1            RS_ADM ENS_EQ(rs_g(eta)) FRAME()
#define CONTRACT_rans_sa__fw_1           RS_ADM ENS_EQ(rs_fw(eta)) FRAME()
#define CONTRACT_rans_sa__production_1   RS_ADM ENS_EQ(rs_production(eta)) FRAME()
#define CONTRACT_rans_sa__destruction_1  RS_ADM ENS_EQ(rs_destruction(eta)) FRAME()
#define CONTRACT_rans_sa__transport_1    REQ(1) ENS_EQ(rs_transport(eta)) FRAME()
#define CONTRACT_rans_sa__eval_exact_u_1 REQ(1) ENS_EQ(rs_u(eta)) FRAME()
#define CONTRACT_rans_sa__eval_exact_v_1 REQ(1) ENS_EQ(rs_nu(eta)) FRAME()
#define CONTRACT_rans_sa__eval_q_u_1     REQ(1) ENS_EQ(rs_q_u(eta)) FRAME()
#define CONTRACT_rans_sa__eval_q_v_1     RS_ADM ENS_EQ(rs_q_v(eta)) FRAME()
#endif
