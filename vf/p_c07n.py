"""C07 (Navier-Stokes part): eval_g_* gradient evaluators of navierstokes_2d/3d_compressible against the first-derivative
components of the same field jets that C03's exact-field and source contracts use (contracts/cns.spec.h)."""
from numeric import run_numeric, replay_file
from p_c03 import units, CLASSES

def run(tier, seed):
    return run_numeric('C07n', units(select=r'^eval_g_', classes=CLASSES[:2]), tier, seed, design_ref='4/C07')

replay = replay_file
