#!/usr/bin/env python3
"""xstore -- mechanical extraction of the parameter-store member functions of manufactured_solution<Scalar>
(masa_class.cpp) to C over lib/vstore.h.  Token stream -> normalised text -> ordered rule table (regex on tokens);
each rule counts hits; anything C++ left over aborts (ExtractionBreak)."""
import re, hashlib
from fractions import Fraction
from xtract import tokenize, strip_comments, match_close, match_brace_text, ExtractionBreak
import xapi
from xstl import splice_loop_contracts

BASE = 'manufactured_solution'
FUNCS = {   # name -> (C return type, C parameter list, {param: kind})
    BASE: ('void', 'void'),
    'register_var': ('int', 'vkey in, vaddr var'),
    'set_var': ('int', 'vkey var, Sc val'),
    'get_var': ('Sc', 'vkey var'),
    'purge_var': ('int', 'void'),
    'sanity_check': ('int', 'void'),
    'display_var': ('int', 'void'),
    'register_vec': ('int', 'vkey in, vvecid vec'),
    'set_vec': ('int', 'vkey var, vvecid vec'),
    'get_vec': ('int', 'vkey name, vvecid vec'),
    'display_vec': ('int', 'void'),
}
ARGS_SRC = {
    BASE: '',
    'register_var': 'std::string in,Scalar* var',
    'set_var': 'std::string var, Scalar val',
    'get_var': 'std::string var',
    'purge_var': '', 'sanity_check': '', 'display_var': '', 'display_vec': '',
    'register_vec': 'std::string in,std::vector<Scalar>& vec',
    'set_vec': 'std::string var,std::vector<Scalar>& vec',
    'get_vec': 'std::string name,std::vector<Scalar>& vec',
}
MAPS = ('varmap', 'vecmap')
VECS = ('vararr', 'vecarr')


def norm(toks):
    return ' '.join(v for k, v in toks if k != 'nl')


def find_member(src, name):
    s = strip_comments(src)
    m = re.search(r'template\s*<\s*typename\s+Scalar\s*>\s*(?:[\w\s\*]+?\s+)?MASA::%s<Scalar>::%s\s*\(' % (BASE, re.escape(name)), s)
    if not m:
        raise ExtractionBreak('manufactured_solution::%s not found' % name)
    i = m.end()
    depth = 1
    while depth:
        depth += {'(': 1, ')': -1}.get(s[i], 0)
        i += 1
    args = re.sub(r'\s+', ' ', s[m.end():i - 1].strip())
    j = i
    while s[j] in ' \t\r\n':
        j += 1
    if s[j] != '{':
        raise ExtractionBreak('%s: expected {' % name)
    end = match_brace_text(s, j + 1)
    return args, s[j + 1:end - 1]


def bracket_end(t, i):
    """t: list of tokens (strings); t[i] == '['; return index of matching ']'"""
    d = 0
    while True:
        if t[i] == '[':
            d += 1
        elif t[i] == ']':
            d -= 1
            if d == 0:
                return i
        i += 1


def rewrite(body, fname):
    hits = {}

    def hit(r, n=1):
        if n:
            hits[r] = hits.get(r, 0) + n

    toks, n = xapi.rewrite_output(tokenize(body))
    hit('O', n)
    toks, nloops = splice_loop_contracts(toks, 'store__' + fname)
    hit('loops', nloops)
    # float literals -> LIT
    lt = []
    for k, v in toks:
        if k == 'num' and (('.' in v) or ('e' in v.lower())):
            f = Fraction(v.rstrip('fFlL'))
            lt.append(('atom', 'LIT(%d,%d)' % (f.numerator, f.denominator)))
            hit('L')
        else:
            lt.append((k, v))
    t = norm(lt)
    bind = {}

    def sub(rule, pat, rep, flags=0):
        nonlocal t
        t, n_ = re.subn(pat, rep, t, flags=flags)
        hit(rule, n_)

    # iterator declarations and loops over a map
    sub('it-decl', r'std :: map < std :: string , int > :: const_iterator (\w+) ;', r'int \1 ;')
    # bind each iterator to its map positionally (the same iterator name may be reused by a later loop)
    LOOP_PAT = r'for \( std :: map < std :: string , int > :: const_iterator (?P<li>\w+) = (?P<lm>\w+) \. begin \( \) ; (?P<li2>\w+) != (?P<lm2>\w+) \. end \( \) ; \+\+ (?P<li3>\w+) \)'
    FIND_PAT = r'(?P<fi>\w+) = (?P<fm>\w+) \. find \( (?P<fk>\w+) \)'
    SEC_PAT = r'\( \* (?P<s1>\w+) \) \. second|(?P<s2>\w+) -> second'
    pos = 0
    outp = []
    for m in re.finditer('(?P<loop>%s)|(?P<find>%s)|(?P<sec>%s)' % (LOOP_PAT, FIND_PAT, SEC_PAT), t):
        outp.append(t[pos:m.start()])
        pos = m.end()
        if m.group('loop'):
            it, mp = m.group('li'), m.group('lm')
            if not (it == m.group('li2') == m.group('li3') and mp == m.group('lm2')):
                raise ExtractionBreak('%s: map loop header shape' % fname)
            bind[it] = mp
            outp.append('for ( int %s = vmap_begin ( & %s ) ; %s != VEND ; %s = vmap_next ( & %s , %s ) )' % (it, mp, it, it, mp, it))
            hit('map-loop')
        elif m.group('find'):
            bind[m.group('fi')] = m.group('fm')
            outp.append('%s = vmap_find ( & %s , %s )' % (m.group('fi'), m.group('fm'), m.group('fk')))
            hit('find')
        else:
            it = m.group('s1') or m.group('s2')
            if it not in bind:
                raise ExtractionBreak('%s: iterator %s is not bound to a map' % (fname, it))
            outp.append('%s . val [ %s ]' % (bind[it], it))
            hit('second')
    outp.append(t[pos:])
    t = ''.join(outp)
    sub('end', r'(\w+) == (\w+) \. end \( \)', r'\1 == VEND')
    sub('map-size', r'int \( (varmap|vecmap) \. size \( \) \)', r'\1 . size')
    sub('map-size', r'(varmap|vecmap) \. size \( \)', r'\1 . size')
    sub('map-set', r'\b(varmap|vecmap) \[ (\w+) \] = ([^;]+) ;', r'vmap_set ( & \1 , \2 , \3 ) ;')
    sub('map-ref', r'\b(varmap|vecmap) \[ (\w+) \]', r'vmap_get_or_insert ( & \1 , \2 )')
    # locals used only for messages
    sub('drop-string', r'std :: string (\w+) ; return_name \( & \1 \) ;', '')
    # vector-of-pointers indexing (token level because of nested brackets)
    tt = t.split(' ')
    out = []
    i = 0
    while i < len(tt):
        if tt[i] in VECS and i + 1 < len(tt) and tt[i + 1] == '[':
            j = bracket_end(tt, i + 1)
            inner = tt[i + 2:j]
            deref = bool(out) and out[-1] == '*'
            if deref:
                out.pop()
                if tt[i] == 'vararr':
                    out += ['HEAP', '(', tt[i] + '_p', '[', tt[i] + '_at', '('] + inner + [')', ']', ')']
                else:
                    out += ['vecval', '[', tt[i] + '_p', '[', tt[i] + '_at', '('] + inner + [')', ']', ']']
                hit('deref-index')
            else:
                out += [tt[i] + '_p', '[', tt[i] + '_at', '('] + inner + [')', ']']
                hit('index')
            i = j + 1
            continue
        out.append(tt[i])
        i += 1
    t = ' '.join(out)
    sub('push', r'(vararr|vecarr) \. push_back \( & (dummy) \)', r'vvec_push ( & \1 , ADDR_\2 )')
    sub('push', r'(vararr|vecarr) \. push_back \( & (dumvec|vec) \)', r'vvec_push ( & \1 , \2 )')
    sub('push', r'(vararr|vecarr) \. push_back \( (\w+) \)', r'vvec_push ( & \1 , \2 )')
    sub('deref-param', r'\* var = ', r'HEAP ( var ) = ')
    # vector objects
    sub('vec-ptr-decl', r'std :: vector < Scalar > \* (\w+) ;', r'vvecid \1 ;')
    sub('vec-local', r'std :: vector < Scalar > (dumvec) ;', r'vvecid \1 = ADDR_LOCAL_\1 ;')
    sub('vec-resize', r'(dumvec) \. resize \( (\d+) \) ;', r'VEC_RESIZE ( \1 , \2 ) ;')
    sub('vec-copy-out', r'\bvec = vecval \[ (vecarr_p \[ vecarr_at \( [^;]*\) \]) \] ;', r'VEC_COPY ( vec , \1 ) ;')
    sub('vec-copy-in', r'vecval \[ (vecarr_p \[ vecarr_at \( [^;]*\) \]) \] = vec ;', r'VEC_COPY ( \1 , vec ) ;')
    sub('vec-size', r'\( \* (\w+) \) \. size \( \)|(\w+) -> size \( \)', lambda m: 'veclen [ %s ]' % (m.group(1) or m.group(2)))
    # a local reference to a stored vector is the address of that vector object; size / resize / element-wise copy on vector objects
    # (vector values are abstract: identity + length; a prefix copy into a longer vector yields some other value of the old length)
    vec_ids = {'vec', 'dumvec'} | set(re.findall(r'(?:const )?std :: vector < Scalar > & (\w+) = vecval \[', t))
    sub('vec-ref', r'(?:const )?std :: vector < Scalar > & (\w+) = vecval \[ (vecarr_p \[ vecarr_at \( [^;]*\) \]) \] ;', r'vvecid \1 = \2 ;')
    sub('vec-size', r'\b(%s) \. size \( \)' % '|'.join(sorted(vec_ids)), r'veclen [ \1 ]')
    sub('vec-resize', r'\b(%s) \. resize \( ([^;]+) \) ;' % '|'.join(sorted(vec_ids)), r'VEC_RESIZE ( \1 , \2 ) ;')
    sub('vec-copy-prefix', r'std :: copy \( (\w+) \. begin \( \) , \1 \. end \( \) , (\w+) \. begin \( \) \) ;', r'VEC_COPY_PREFIX ( \2 , \1 ) ;')
    # scalars
    sub('eps', r'std :: numeric_limits < Scalar > :: epsilon \( \)', 'VF_EPS ( )')
    sub('abs', r'std :: abs \(', 'vabs (')
    sub('abs', r'\bfabs \(', 'vabs (')
    sub('div', r'/ (MASA_VAR_DEFAULT)\b', r'* MASA_VAR_DEFAULT_INV')
    sub('T', r'\bScalar\b', 'Sc')
    sub('X', r'\bmasa_exit\b', 'GHOST_EXIT')
    # containers are separate global arrays with per-container operations (lib/vstore.h)
    sub('percontainer', r'vmap_(\w+) \( & (\w+) , ', r'\2_\1 ( ')
    sub('percontainer', r'vmap_(\w+) \( & (\w+) \)', r'\2_\1 ( )')
    sub('percontainer', r'\b(varmap|vecmap) \. val \[', r'\1_val [')
    sub('percontainer', r'\b(varmap|vecmap) \. size\b', r'\1_size')
    sub('percontainer', r'vvec_push \( & (\w+) , ', r'\1_push ( ')
    for bad in ('::', '->', '<<', ' . begin', ' . end', ' . find', 'std ', 'iterator', ' / ', '"'):
        if bad in t:
            k = t.index(bad)
            raise ExtractionBreak('%s: %r not covered by the rule table near: %s' % (fname, bad.strip(), t[max(0, k - 60):k + 60]))
    # pretty: one statement per line
    t = re.sub(r' ; ', ' ;\n', t)
    t = re.sub(r'(\{|\})', r'\n\1\n', t)
    return t, hits


def extract_store(src_path):
    src = open(src_path).read()
    o, info = [], []
    for name, (ret, params) in FUNCS.items():
        args, body = find_member(src, name)
        if args != ARGS_SRC[name]:
            raise ExtractionBreak('%s: signature changed: (%s)' % (name, args))
        c, hits = rewrite(body, name)
        cname = 'store__' + ('ctor' if name == BASE else name)
        if name == BASE:
            c = c.replace('LOOP_store__%s_' % BASE, 'LOOP_store__ctor_')
        sha = hashlib.sha256(body.encode()).hexdigest()
        info.append({'function': cname, 'sha256': sha, 'hits': hits})
        o.append('/* manufactured_solution<Scalar>::%s  sha256(source body)=%s */\n%s %s(%s)\nCONTRACT_%s\n{\n%s\n}\n' % (
            name, sha, ret, cname, params, cname, c))
    # the constant
    m = re.search(r'MASA_VAR_DEFAULT\s*=\s*(-?[\d.]+)\s*;', strip_comments(src))
    if not m:
        raise ExtractionBreak('MASA_VAR_DEFAULT initialiser not found')
    f = Fraction(m.group(1))
    return '\n'.join(o), info, (f.numerator, f.denominator)


if __name__ == '__main__':
    t, info, d = extract_store('/repo/src/masa_class.cpp')
    print(t)
    print(d)
    for i in info:
        print(i)
