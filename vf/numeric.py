"""numeric.py -- contract checking of the closed-form evaluators (C01-C08, C20): extraction, DFCC proof per
function, native-twin counterexample search, replay on the real C++ class, evidence."""
import os, re, sys, json, time, random, subprocess
from concurrent.futures import ThreadPoolExecutor
import xtract
from xtract import ExtractionBreak
from common import *
from cbmcjob import cbmc_job

TRUSTED_NUMERIC = [
    'floating point treated as exact real arithmetic (one proof covers double and long double; rounding is C09, not claimed)',
    'libm functions are uninterpreted functions + axioms of lib/real.h (sin^2+cos^2=1, a*inv(a)=1, sqrt(a)^2=a & sqrt>=0, exp>0); derivative rules of lib/jets.h',
    'every denominator is assumed non-zero and every sqrt argument non-negative (admissibility preconditions; paths violating them are excluded)',
    'extractor rule table of vf/xtract.py (DESIGN.md 3.1): x/y == x*inv(y), members of one object == globals, pow(b,n)==repeated product for integer n',
    'C++ semantics not re-verified: template instantiation gives the same body for both scalar types; pi == PI == acos(-1)',
    'function-local statics (rule SL): an initialiser that mentions no argument, local, member function or mutable member is treated as an ordinary local; any other static is process-wide state whose value on entry is arbitrary (over-approximates "initialised in the state of the first call"); adjacent literal factors are multiplied exactly (rule Lf)',
    'CBMC 6.11 (goto-cc, DFCC contract instrumentation) and the SMT solver that answered (cvc5 1.0 / z3 5.1 / z3 4.8.12)',
]


class Unit:
    def __init__(self, cls, src, spec, defines=(), header='masa_internal.h', select=None, skip=('init_var',),
                 replace=None, frame_ok=None, timeout=None, tag='', key_suffix='.contract', sample='uniform', arg_box=None, ghost_capture=None, extra_cbmc=(),
                 extractor=None, replay_target=None, render_select=None, loop_contracts=False, fixed_args=None):
        self.cls, self.src, self.spec, self.defines, self.header = cls, src, spec, list(defines), header
        self.select = select          # regex on member-function name: which functions this property covers
        self.skip = skip
        self.replace = replace or {}  # cname -> [callee cnames replaced by their contract]
        self.timeout = timeout
        self.ghost_capture = ghost_capture
        self.extra_cbmc = list(extra_cbmc)
        self.render_select = render_select     # regex: only these member functions are rendered into the unit (others dropped)
        self.loop_contracts = loop_contracts
        self.fixed_args = fixed_args or {}     # parameter name -> constant used by the proof harness (e.g. the moment order k)
        self.sample, self.arg_box = sample, (arg_box or {})   # native sampling: 'uniform' in [-2,2] or 'defaults' (init_var values x (1 +- 30%))
        self.tag, self.key_suffix = tag, key_suffix   # pinned "as-coded" characterisations of known findings use another key
        self.extractor = extractor          # optional callable(unit): sets unit.decl (xtract.ClassDecl) and unit.funcs ([xtract.Func]) instead of
                                            # xtract.extract_class (sources that are not `MASA::cls<Scalar>::f` definitions, e.g. nsctpl.hpp); unit.dir exists
        self.replay_target = replay_target  # optional callable(unit, func) -> (class template, method expression, extra C++ text) for replay_real
        self.decl = None
        self.funcs = []
        self.dir = None


def contracts_in_spec(spec_path):
    txt = open(spec_path).read()
    return set(re.findall(r'^\s*#\s*define\s+CONTRACT_(\w+__\w+)\b', txt, re.M))


def harness_text(f, unit_file='unit.c', fixed=None):
    decls = []
    call = []
    for t, n, k in f.args:
        if k == 'funcptr':
            call.append('0')
        elif fixed and n in fixed:
            call.append(str(fixed[n]))
        else:
            decls.append('%s a_%s;' % (t, n))
            call.append('a_' + n)
    return '#include "%s"\nvoid h_%s(void)\n{ %s\n  %s(%s);\n  __CPROVER_assert(0, "canary");\n}\n' % (
        unit_file, f.cname, ' '.join(decls), f.cname, ', '.join(call))


def prepare_unit(u, base):
    u.dir = os.path.join(base, u.cls + u.tag)
    os.makedirs(u.dir, exist_ok=True)
    if getattr(u, 'extractor', None):
        u.extractor(u)
    else:
        u.decl, u.funcs = xtract.extract_class(os.path.join(SRC, u.src), os.path.join(SRC, u.header), u.cls, skip=u.skip, ghost_capture=getattr(u, 'ghost_capture', None))
    if getattr(u, 'render_select', None):
        u.funcs = [f_ for f_ in u.funcs if re.search(u.render_select, f_.name)]
    text = xtract.render_unit(u.cls, u.decl, u.funcs, u.spec, prelude='real.h', defines=u.defines)
    open(os.path.join(u.dir, 'unit.c'), 'w').write(text)
    return u


def native_unit_text(u, under):
    cbs = sorted({n for f in u.funcs for (t, n, k) in f.args if k == 'funcptr'})
    pre = '#include "native.h"\n' + ''.join(
        'static Sc __CPROVER_uninterpreted_%s(Sc a) { return expl(-1.0L / (1.0L + a * a)) + 0.5L; } /* native stand-in for the caller-supplied callback (rule K) */\n' % n
        for n in cbs)
    o = [pre + xtract.render_unit(u.cls, u.decl, u.funcs, u.spec, prelude='native.h', defines=u.defines)]
    o.append('#undef REQ\n#undef ENS_EQ\n#undef ENS\n#undef FRAME')
    o.append('static int vf_has_want;\n#define REQ(e) if (!(e)) return 0;\n#define ENS_EQ(e) *want = (e); vf_has_want = 1;\n#define ENS(e)\n#define FRAME(...)')
    for f in under:
        params = xtract.sig(f)
        params = '' if params == 'void' else params + ', '
        o.append('static int twin_%s(%sSc *want) { CONTRACT_%s return 1; }' % (f.cname, params, f.cname))
    # driver
    init_fn = None
    if getattr(u, 'sample', 'uniform') == 'defaults':
        d2, f2 = xtract.extract_class(os.path.join(SRC, u.src), os.path.join(SRC, u.header), u.cls, skip=(), only=['init_var'], extra_ids=[f_.cname for f_ in u.funcs])
        for f_ in f2:
            o.append('/* defaults: extracted init_var (native sampling only) */\nint %s(void)\n{%s}\n' % (f_.cname, f_.body_c))
            init_fn = f_.cname
    o.append('static Sc rnd(void) { return (Sc)(4.0 * drand48() - 2.0); }')
    o.append('static Sc rndp(void) { Sc r = rnd(); if (fabsl(r) < 0.05L) r = 0.37L; return r; }')
    o.append('struct mem { const char *n; Sc *p; };')
    o.append('static struct mem mems[] = {%s {0, 0}};' % ''.join('{"%s", &%s},' % (m, m) for m in u.decl.scalars))
    if init_fn:
        o.append('static void randomize(void) { for (struct mem *m = mems; m->n; m++) *m->p = 0; %s(); for (struct mem *m = mems; m->n; m++) *m->p *= (Sc)(1.0 + 0.3 * (2.0 * drand48() - 1.0)); pi = PI = acosl(-1.0L); }' % init_fn)
    else:
      o.append('''static void randomize(void) { for (struct mem *m = mems; m->n; m++) *m->p = rndp(); pi = PI = acosl(-1.0L);%s }''' % (
        ''.join(' %s_size = 1 + (int)(drand48() * 6); %s_size_r = %s_size; for (int i = 0; i < VF_VECMAX; i++) %s[i] = rnd();' % (v, v, v, v) for v in u.decl.vectors)))
    statics = [g for f_ in u.funcs for (g, ty_, n_, d_) in getattr(f_, 'statics', [])]
    o.append('/* rule SLs: function-local statics are process-wide state -> every sample is a two-call history (warm-up in one state, then the compared call) */')
    o.append('static void reset_statics(void) { %s }' % ' '.join('%s__init = 0;' % g for g in statics))
    o.append('static Sc warm_vals[%d];' % (len(u.decl.scalars) + 1))
    o.append('static void save_warm(void) { int i = 0; for (struct mem *m = mems; m->n; m++) warm_vals[i++] = *m->p; }')
    o.append('static void dump_warm(void) { int i = 0; printf(", \\"warm_members\\": {"); for (struct mem *m = mems; m->n; m++) printf("%s\\"%s\\": \\"%.21Lg\\"", m == mems ? "" : ", ", m->n, warm_vals[i++]); printf("}"); }')
    o.append('static void dump(void) { printf("\\"members\\": {"); for (struct mem *m = mems; m->n; m++) printf("%s\\"%s\\": \\"%.21Lg\\"", m == mems ? "" : ", ", m->n, *m->p); printf("}"); }')
    o.append('int main(int argc, char **argv) {\n  const char *fn = argv[1]; long seed = atol(argv[2]); long N = atol(argv[3]); srand48(seed); long tried = 0, evald = 0;')
    for f in under:
        sc = [(t, n, k) for t, n, k in f.args]
        o.append('  if (!strcmp(fn, "%s")) {' % f.cname)
        o.append('    for (long it = 0; it < N; it++) {')
        wnames = []
        if statics and f.ret == 'Sc':
            o.append('      reset_statics(); randomize(); vf_assume_failed = 0;')
            for t, n, k in sc:
                if k == 'scalar' and n in getattr(u, 'arg_box', {}):
                    lo_, hi_ = u.arg_box[n]
                    o.append('      Sc w_%s = (Sc)(%r + (%r - %r) * drand48());' % (n, lo_, hi_, lo_))
                elif k == 'scalar':
                    o.append('      Sc w_%s = rnd();' % n)
                elif k == 'int':
                    o.append('      int w_%s = 1;' % n)
                else:
                    o.append('      int w_%s = 0;' % n)
                wnames.append('w_' + n)
            wl = ', '.join(wnames)
            o.append('      { Sc ww_ = 0; if (!twin_%s(%s&ww_)) continue; (void)%s(%s); if (vf_assume_failed) continue; save_warm(); }' % (f.cname, wl + (', ' if wl else ''), f.cname, wl))
        o.append('      randomize(); vf_assume_failed = 0; ghost_msg = ghost_exit = ghost_nan = 0;')
        names = []
        for t, n, k in sc:
            if k == 'scalar' and n in getattr(u, 'arg_box', {}):
                lo_, hi_ = u.arg_box[n]
                o.append('      Sc a_%s = (Sc)(%r + (%r - %r) * drand48());' % (n, lo_, hi_, lo_))
            elif k == 'scalar':
                o.append('      Sc a_%s = rnd();' % n)
            elif k == 'int' and n in getattr(u, 'arg_box', {}):
                lo_, hi_ = u.arg_box[n]
                o.append('      int a_%s = %d + (int)(drand48() * %d);' % (n, lo_, hi_ - lo_ + 1))
            elif k == 'int':
                o.append('      int a_%s = (int)(drand48() * 9) - 2;' % n)
            else:
                o.append('      int a_%s = 0;' % n)
            names.append('a_' + n)
        al = ', '.join(names)
        o.append('      Sc want = 0; tried++; vf_has_want = 0; if (!twin_%s(%s&want)) continue;' % (f.cname, al + (', ' if al else '')))
        o.append('      if (!vf_has_want) { printf("{\\"found\\": false, \\"tried\\": 0, \\"evaluated\\": 0, \\"error\\": \\"contract has no ENS_EQ clause: nothing to compare natively\\"}\\n"); return 0; }')
        o.append('      Sc got = %s(%s); if (vf_assume_failed) continue; evald++;' % (f.cname, al))
        o.append('      twin_%s(%s&want);   /* the postcondition is evaluated in the post-state (cached members are set by the call) */' % (f.cname, al + (', ' if al else '')))
        o.append('      if (!isfinite(got) || !isfinite(want)) continue;   /* overflow/NaN at an extreme sample is not a counterexample */')
        o.append('      Sc sc_ = fabsl(got) > fabsl(want) ? fabsl(got) : fabsl(want); if (sc_ < 1) sc_ = 1;')
        o.append('      if (!(fabsl(got - want) <= 1e-9L * sc_)) { printf("{\\"found\\": true, \\"function\\": \\"%s\\", "); dump();' % f.cname)
        o.append('        printf(", \\"args\\": [%s]", %s);' % (', '.join('\\"%.21Lg\\"' if k == 'scalar' else '%d' for t, n, k in sc),
                                                             ', '.join(names)) if names else '        printf(", \\"args\\": []");')
        if wnames or (statics and f.ret == 'Sc'):
            o.append('        dump_warm();')
            o.append('        printf(", \\"warm_args\\": [%s]", %s);' % (', '.join('\\"%.21Lg\\"' if k == 'scalar' else '%d' for t, n, k in sc),
                                                                  ', '.join(wnames)) if wnames else '        printf(", \\"warm_args\\": []");')
        o.append('        printf(", \\"got\\": \\"%.21Lg\\", \\"want\\": \\"%.21Lg\\", \\"tried\\": %ld}\\n", got, want, tried); return 0; }')
        o.append('    }\n    printf("{\\"found\\": false, \\"tried\\": %ld, \\"evaluated\\": %ld}\\n", tried, evald); return 0; }')
    o.append('  return 3; }')
    return '\n'.join(o) + '\n'


def native_search(u, under, f, seed, N):
    """compile the native twin once per unit, search for a concrete input where code != spec"""
    exe = os.path.join(u.dir, 'twin')
    if not os.path.exists(exe):
        open(os.path.join(u.dir, 'unit_native.c'), 'w').write(native_unit_text(u, under))
        rc, out, s, to = run(['gcc', '-O1', '-w', '-I', LIB, '-I', CONTRACTS, '-I', u.dir, 'unit_native.c', '-o', exe, '-lm'],
                             cwd=u.dir, timeout=300)
        if rc != 0:
            return {'found': False, 'error': 'native twin does not compile: ' + out[-2000:]}
    rc, out, s, to = run([exe, f.cname, str(seed), str(N)], cwd=u.dir, timeout=600)
    try:
        return json.loads(out.strip().splitlines()[-1])
    except Exception:
        return {'found': False, 'error': 'native twin output: ' + out[-500:]}


REPLAY_TMPL = r'''
#include <%(header)s>
#include <cmath>
#include <cstdio>
#include <cstdlib>
namespace MASA { void masa_exit(int c) { std::printf("masa_exit(%%d)\n", c); std::exit(c); } }
using namespace MASA;
%(extra)s
int main() {
  %(cls)s<long double> o;
%(warm)s
%(sets)s
  long double r = o.%(method)s(%(args)s);
  std::printf("REAL %%.21Lg\n", r);
  return 0;
}
'''


CB_EXTRA = 'static long double vf_cb(long double a) { return expl(-1.0L / (1.0L + a * a)) + 0.5L; }\n'


def replay_args(f, args):
    """native-search args -> replay args (callback parameters become the C++ twin of the native stand-in)"""
    out = []
    for (t, n, k), a in zip(f.args, args):
        out.append({'callback': 'vf_cb'} if k == 'funcptr' else a)
    return out


def replay_real(cls, src, method, members, args, workdir, extra='', header='masa_internal.h', warm=None):
    """evaluate the REAL C++ member function (from /repo's working tree) at a concrete input -> long double as str.
    warm = (members, args): a first call in another parameter state (the history that initialises function-local statics, rule SLs)"""
    sets = '\n'.join('  o.set_var("%s", %sL);' % (k, _ld(v)) for k, v in members.items())
    wtxt = ''
    if warm and warm[0]:
        wtxt = '  /* warm-up call of the history found by the native twin */\n' + '\n'.join('  o.set_var("%s", %sL);' % (k, _ld(v)) for k, v in warm[0].items()) + \
               '\n  (void)o.%s(%s);' % (method, ', '.join(_arg(a) for a in warm[1]))
    prog = REPLAY_TMPL % {'warm': wtxt, 'cls': cls, 'sets': sets, 'method': method, 'args': ', '.join(_arg(a) for a in args), 'extra': extra, 'header': header}     # smasa.h includes masa_internal.h itself (which has no include guard)
    os.makedirs(workdir, exist_ok=True)
    open(os.path.join(workdir, 'replay.cpp'), 'w').write(prog)
    srcs = [os.path.join(SRC, src)]
    if src != 'masa_class.cpp':
        srcs.append(os.path.join(SRC, 'masa_class.cpp'))
    rc, out, s, to = run(['g++', '-O0', '-w', '-I', SRC, '-I', REPO, '-DHAVE_CONFIG_H', 'replay.cpp'] + srcs + ['-o', 'replay'],
                         cwd=workdir, timeout=600)
    if rc != 0:
        return None, 'replay build failed: ' + out[-1500:]
    rc, out, s, to = run([os.path.join(workdir, 'replay')], cwd=workdir, timeout=60)
    m = re.search(r'^REAL (\S+)$', out, re.M)
    if not m:
        return None, 'replay run failed: ' + out[-500:]
    return m.group(1), out


def replay_target(u, f):
    """-> (class template to instantiate, method expression, extra C++ text): the unit's own choice or the class/method themselves"""
    if getattr(u, 'replay_target', None):
        return u.replay_target(u, f)
    return u.cls, f.name, ''


def _ld(v):
    s = str(v)
    if re.match(r'^-?\d+$', s):
        s += '.0'
    return s


def _arg(a):
    if isinstance(a, dict):
        return a['callback']
    if isinstance(a, int):
        return str(a)
    return _ld(a) + 'L'


def differs(a, b):
    from decimal import Decimal
    try:
        x, y = Decimal(a), Decimal(b)
    except Exception:
        return True
    if x.is_nan() or y.is_nan() or x.is_infinite() or y.is_infinite():
        return False      # non-finite on either side decides nothing
    sc = max(abs(x), abs(y), Decimal(1))
    return abs(x - y) > Decimal('1e-9') * sc


def run_numeric(prop, units, tier, seed, trusted_extra=(), design_ref='', lemmas=(), api_groups=None, api_only=None, explanation=None, bounded=()):
    t0 = time.time()
    rep = Report(prop)
    base = scratch('num-' + prop)
    tmo = 120 if tier == 'quick' else 900      # the slowest function of the unchanged tree needs ~36 s (rans_sa), ~26 s (axi_cns_transient): >3x margin under load
    N = 20000 if tier == 'quick' else 2000000
    jobs = []
    under_all, not_under, extraction = [], [], {}
    notes = []
    all_have, all_funcs = {}, {}
    try:
        for u in units:
            prepare_unit(u, base)
            have = contracts_in_spec(os.path.join(CONTRACTS, u.spec))
            sel = [f for f in u.funcs if (u.select is None or re.search(u.select, f.name))]
            if os.environ.get('VF_ONLY'):
                sel = [f for f in sel if re.search(os.environ['VF_ONLY'], f.cname)]
            u.under = [f for f in sel if f.cname in have]
            bnames = {b_[0] for b_ in bounded}
            u.bounded_fns = [f for f in sel if f.cname in bnames and f.cname not in have]
            for f in sel:
                if f.cname not in have and f.cname not in bnames:
                    not_under.append(f.cname)
                for nt in f.notes:
                    notes.append('%s: %s' % (f.cname, nt))
                for k, v in f.hits.items():
                    extraction[k] = extraction.get(k, 0) + v
            all_have.setdefault(u.spec, set()).update(c for c in have if c.startswith(u.cls + '__'))
            all_funcs.setdefault(u.spec, set()).update(f.cname for f in u.funcs)
            for f in u.under:
                hf = os.path.join(u.dir, 'h_%s.c' % f.cname)
                open(hf, 'w').write(harness_text(f, fixed=getattr(u, 'fixed_args', None)))
                jobs.append((u, f, hf))
        for sp_, hv_ in all_have.items():
            missing = sorted(hv_ - all_funcs.get(sp_, set()))
            if missing and not os.environ.get('VF_ONLY'):
                raise ExtractionBreak('contract(s) in %s without a function in /repo: %s (renamed or removed?)' % (sp_, ', '.join(missing)))
    except ExtractionBreak as e:
        rep.undecide('extraction break: %s' % e)
        rc = rep.finish()
        write_evidence(prop, tier, seed, 'proof', {'evaluations': 0, 'distinct_nontrivial': 0, 'obligations': 0, 'discharged': 0,
                                                   'checker_cmd': 'n/a', 'trusted_base': TRUSTED_NUMERIC,
                                                   'explanation': 'extraction break: %s' % e}, TRUSTED_NUMERIC, time.time() - t0, 0)
        return rc

    class _L:      # lemma pseudo-function / pseudo-unit
        pass
    for ln_ in lemmas:
        lu, lf = _L(), _L()
        lu.dir, lu.cls, lu.src, lu.under, lu.replace, lu.timeout, lu.header = base, 'lemma', 'contracts/lemmas.c', [], {}, None, ''
        lf.cname, lf.name, lf.sha, lf.args, lf.is_lemma = ln_, ln_, 'n/a', [], True
        jobs.append((lu, lf, os.path.join(CONTRACTS, 'lemmas.c')))

    def work(job):
        u, f, hf = job
        if getattr(f, 'is_lemma', False):
            return job, cbmc_job(u.dir, f.cname, hf, f.cname, enforce=None, smt=True, timeout=tmo, own_prefixes=(f.cname,))
        kf_ = rep.is_known(f.cname + getattr(u, 'key_suffix', '.contract'), f.sha)
        # an obligation recorded as a known finding is expected to fail: a short proof attempt, then straight to the concrete reproduction
        return job, cbmc_job(u.dir, f.cname, hf, 'h_' + f.cname, enforce=f.cname, replace=u.replace.get(f.cname, ()), smt=True,
                             timeout=15 if kf_ else (u.timeout or tmo), extra_cbmc=getattr(u, 'extra_cbmc', ()), loop_contracts=getattr(u, 'loop_contracts', False))

    results = []
    with ThreadPoolExecutor(max_workers=NCPU) as ex:
        for job, r in ex.map(work, jobs):
            results.append((job, r))

    n_obl = n_dis = 0
    samples, per_fn, bounded_info, kf_obl = [], [], [], 0
    solver_s = 0.0
    checker_cmd = ''
    for (u, f, hf), r in results:
        solver_s += r.seconds
        checker_cmd = checker_cmd or r.cmd
        per_fn.append({'function': f.cname + getattr(u, 'tag', ''), 'status': r.status, 'backend': r.backend, 'seconds': round(r.seconds, 2), 'canary': r.canary,
                       'obligations': len(r.obligations), 'source_sha256': f.sha})
        key = f.cname + getattr(u, 'key_suffix', '.contract')
        frame_payload = None
        if r.status == 'discharged' and r.canary != 'reachable':
            # vacuity guard could not be decided by the solvers: fall back to concrete reachability of the contract's
            # precondition in the native twin (weaker: shows requires is satisfiable over the reals, not the axioms' consistency)
            nr = native_search(u, u.under + getattr(u, 'bounded_fns', []), f, seed, 2000) if not getattr(f, 'is_lemma', False) else {}
            if nr.get('found') or nr.get('evaluated', 0) > 0:
                per_fn[-1]['canary'] = 'native-reachable'
            else:
                rep.undecide('%s: vacuity canary undecided and no admissible input found natively (%s)' % (f.cname, nr.get('error', '')))
                continue
        if r.status == 'discharged':
            n_obl += len(r.obligations)
            n_dis += len(r.obligations)
            if len(samples) < 6:
                samples.append({'function': f.cname, 'obligations': [o[0] + ': ' + o[2] for o in r.obligations][:8], 'backend': r.backend})
            continue
        if getattr(f, 'is_lemma', False):
            rep.undecide('lemma %s not discharged (%s %s)' % (f.cname, r.status, r.detail))
            continue
        if r.status == 'undecided' and not rep.is_known(key, f.sha):
            # the all-obligations query was not decided: ask for every obligation on its own (frame / assigns obligations are small and
            # get a definite answer even when the functional postcondition does not)
            r2 = cbmc_job(u.dir, f.cname + '.split', hf, 'h_' + f.cname, enforce=f.cname, replace=u.replace.get(f.cname, ()), smt=True,
                          timeout=40, split=True, split_workers=8, expect_canary=False, solvers=['cvc5', 'z3'])
            frame_fail = [x for x in r2.failed if re.search(r'\.assigns\.|loop_assigns|\.frees\.', x)]
            if frame_fail:
                payload = {'function': f.cname, 'class': u.cls, 'source': u.src, 'method': f.name, 'status': 'refuted (frame)', 'source_sha256': f.sha,
                           'failed_obligations': frame_fail, 'detail': 'the function writes state outside its contract frame (assigns clause)',
                           'verifier_output': (r2.log or r.log)[-6000:], 'checker_cmd': r2.cmd}
                if getattr(f, 'statics', []) and f.ret == 'Sc':
                    # rule SLs: the frame obligation fails because a function-local static is written; look for the two-call history that
                    # shows the stale value on the real class before settling for the frame violation alone
                    frame_payload = payload
                else:
                    if not rep.violation(key, payload, no_input=True):
                        kf_obl += 1
                    continue
        # not discharged: search for a concrete input, then replay on the real class
        found = native_search(u, u.under + getattr(u, 'bounded_fns', []), f, seed, N)
        if frame_payload is not None and not found.get('found'):
            if not rep.violation(key, frame_payload, no_input=True):
                kf_obl += 1
            continue
        rcls, rmeth, rextra = replay_target(u, f)
        payload = {'function': f.cname, 'class': rcls, 'source': u.src, 'header': u.header, 'method': rmeth, 'status': r.status, 'source_sha256': f.sha,
                   'failed_obligations': (frame_payload or {}).get('failed_obligations', []) + list(r.failed), 'detail': r.detail, 'verifier_output': r.log[-8000:], 'checker_cmd': r.cmd,
                   'native_search': found}
        if rextra:
            payload['replay_extra'] = rextra
        if found.get('found'):
            warm_ = (found['warm_members'], replay_args(f, found.get('warm_args', []))) if found.get('warm_members') else None
            real, rlog = replay_real(rcls, u.src, rmeth, found['members'], replay_args(f, found['args']),
                                     os.path.join(u.dir, 'replay_' + f.cname), header=u.header, extra=CB_EXTRA + rextra, warm=warm_)
            payload['replay_args'] = replay_args(f, found['args'])
            if warm_:
                payload['replay_history'] = 'set warm_members; call(warm_args); set members; call(args)  -- the first call initialises the function-local static(s)'
            payload['real_value'] = real
            payload['spec_value'] = found['want']
            payload['replay_log'] = rlog[-1500:]
            if real is not None and differs(real, found['want']):
                if rep.violation(key, payload):
                    pass
                else:
                    kf_obl += 1
                continue
            if frame_payload is not None:
                frame_payload['native_search'] = found
                frame_payload['replay_log'] = str(rlog)[-1500:]
                if not rep.violation(key, frame_payload, no_input=True):
                    kf_obl += 1
                continue
            # the extracted text disagrees with the spec but the real class does not: extraction is wrong
            rep.undecide('%s: native twin found an input but %s' % (f.cname, 'the replay on the real class could not be built/run: ' + str(rlog)[-300:].replace('\n', ' ') if real is None else 'the real library agrees with the spec there (extractor/spec issue)'))
            continue
        if r.status == 'refuted':
            if not rep.violation(key, payload, no_input=True):
                kf_obl += 1
            continue
        rep.undecide('%s: %s (%s); no concrete counterexample in %s native samples' % (f.cname, r.status, r.detail, found.get('tried')))
        open(os.path.join(base, 'undecided_%s.log' % f.cname), 'w').write(r.log)
        if os.environ.get('VF_VERBOSE'):
            sys.stderr.write(r.log[-3000:] + '\n')

    # ---- bounded stand-ins (DESIGN 3.4): native twin, code vs un-weakened contract on N sampled admissible inputs; never counted as proved
    breason = dict(bounded)
    for u in units:
        for f in getattr(u, 'bounded_fns', []):
            if f.ret != 'Sc':
                bounded_info.append({'function': f.cname, 'label': 'bounded', 'result': 'not sampled: no scalar result to compare (validated through its callers)', 'reason': breason.get(f.cname, '')})
                continue
            found = native_search(u, u.under + u.bounded_fns, f, seed, N)
            key = f.cname + getattr(u, 'key_suffix', '.contract')
            if found.get('found'):
                rcls, rmeth, rextra = replay_target(u, f)
                warm_ = (found['warm_members'], replay_args(f, found.get('warm_args', []))) if found.get('warm_members') else None
                real, rlog = replay_real(rcls, u.src, rmeth, found['members'], replay_args(f, found['args']),
                                         os.path.join(u.dir, 'replay_' + f.cname), header=u.header, extra=CB_EXTRA + rextra, warm=warm_)
                payload = {'function': f.cname, 'class': rcls, 'source': u.src, 'header': u.header, 'method': rmeth, 'replay_extra': rextra, 'status': 'bounded stand-in found a counterexample',
                           'failed_obligations': [f.cname + '.bounded'], 'native_search': found, 'real_value': real, 'spec_value': found['want'],
                           'replay_args': replay_args(f, found['args']), 'replay_log': rlog[-1500:]}
                if real is not None and differs(real, found['want']):
                    rep.violation(key, payload)
                else:
                    rep.undecide('%s: bounded stand-in found an input (code %s, contract %s) that %s' % (f.cname, found.get('got'), found.get('want'),
                                 'the real library does not reproduce (real value %s)' % real if real is not None else 'could not be replayed: ' + rlog[-300:]))
                continue
            ev_ = found.get('evaluated', 0)
            if 'no ENS_EQ' in str(found.get('error', '')):
                bounded_info.append({'function': f.cname, 'label': 'bounded', 'result': 'not sampled: the contract has no ENS_EQ clause to compare natively (validated through its callers)', 'reason': breason.get(f.cname, '')})
                continue
            if ev_ < 200:
                rep.undecide('%s: bounded stand-in evaluated only %d admissible samples (%s)' % (f.cname, ev_, found.get('error', '')))
                continue
            bounded_info.append({'function': f.cname, 'label': 'bounded (never counted as proved)', 'samples_tried': found.get('tried'), 'samples_evaluated': ev_,
                                 'bound': 'native long double twin of the extracted code vs the contract expression, tolerance 1e-9 relative; sampling=%s' % getattr(u, 'sample', 'uniform'),
                                 'reason': breason.get(f.cname, '')})
    api_extra = {}
    if api_groups:
        import apicheck
        abase = os.path.join(base, 'api')
        try:
            ajobs, anot, ainfo = apicheck.build(set(api_groups), abase, only=api_only)
            ares = apicheck.run_jobs(ajobs, abase, tier)
            a_dis, a_per, a_samples = apicheck.account(rep, ares, abase)
            n_obl += a_dis
            n_dis += a_dis
            per_fn += a_per
            samples += a_samples[:2]
            not_under += ['%s: %s' % x for x in anot]
            api_extra = {'api_extraction': ainfo, 'api_functions_under_contract': [j[0] for j, r in ares]}
            trusted_extra = list(trusted_extra) + apicheck.TRUSTED_API
        except ExtractionBreak as e:
            rep.undecide('extraction break (API layer): %s' % e)
    cov = {'obligations': n_obl + len(rep.violations) + len(rep.undecided), 'discharged': n_dis,
           'checker_cmd': checker_cmd or 'goto-cc | goto-instrument --dfcc --enforce-contract | cbmc --cvc5',
           'trusted_base': TRUSTED_NUMERIC + list(trusted_extra),
           'functions_under_contract': [f.cname for (u, f, hf), r in results],
           'functions_not_under_contract': not_under,
           'per_function': per_fn, 'solver_seconds_total': round(solver_s, 1),
           'extraction_rule_hits': extraction, 'extraction_notes': notes[:50],
           'known_finding_obligations': kf_obl, 'bounded': bounded_info,
           'samples': samples or [{'note': 'no obligation discharged'}],
           'explanation': explanation or 'each function of /repo/src is extracted mechanically to C each run and its contract '
                          '(ensures ret == PDE operator applied to the documented field jet) is enforced by goto-instrument --dfcc; '
                          'every obligation listed was discharged by the SMT back end named per function'}
    cov.update(api_extra)
    write_evidence(prop, tier, seed, 'proof', cov, TRUSTED_NUMERIC + list(trusted_extra), time.time() - t0, len(rep.violations))
    print('%s: %d functions under contract, %d obligations, %d discharged, %d violations, %d undecided, %d known findings (%.1fs)' % (
        prop, len(results), cov['obligations'], n_dis, len(rep.violations), len(rep.undecided), len(rep.known_hits), time.time() - t0))
    return rep.finish()


def replay_file(path):
    """./check <id> --replay <file>: re-evaluate the real class at the recorded input"""
    p = json.load(open(path))
    ns = p.get('native_search') or {}
    if not ns.get('found'):
        print('replay file carries no concrete input (no-failing-input-found); failed obligation: %s' % p.get('obligation'))
        print((p.get('verifier_output') or '')[-3000:])
        return EXIT_VIOLATION
    wd = scratch('replay')
    real, log = replay_real(p['class'], p['source'], p['method'], ns['members'], p.get('replay_args', ns['args']), wd, extra=CB_EXTRA + p.get('replay_extra', ''), header=p.get('header', 'masa_internal.h'))
    print('function %s::%s  real=%s  spec=%s' % (p['class'], p['method'], real, ns['want']))
    if real is None:
        print(log)
        return EXIT_UNDECIDED
    if differs(real, ns['want']):
        print('VIOLATION property=%s replay=%s' % (p['property'], path))
        return EXIT_VIOLATION
    print('real library agrees with the spec at the recorded input')
    return EXIT_OK
