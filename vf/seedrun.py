#!/usr/bin/env python3
"""seedrun -- run the registered checks against the seeded changes of /verif/seeded/<id>/ and record the outcome in meta.json.

For each seed: `git -C /repo apply seeded/<id>/patch.diff`, run ./check <property> (evidence and replay files are written under
$VF_OUT=/var/tmp/seedout-<id>, never into /verif/evidence), `git -C /repo checkout -- .` straight afterwards.  /repo must be clean
before a seed is applied and is verified clean afterwards.  Not a registered command: a development tool that documents which
check catches which change (DESIGN.md 10.8).

usage: vf/seedrun.py [id ...]        (default: every directory under seeded/)"""
import os, sys, json, subprocess, time, re, shutil

VERIF = os.path.dirname(os.path.dirname(os.path.abspath(__file__)))
REPO = '/repo'


def sh(cmd, **kw):
    return subprocess.run(cmd, stdout=subprocess.PIPE, stderr=subprocess.STDOUT, universal_newlines=True, **kw)


def clean():
    return sh(['git', '-C', REPO, 'status', '--porcelain', '--untracked-files=no']).stdout.strip() == ''


def main():
    ids = sys.argv[1:] or sorted(os.listdir(os.path.join(VERIF, 'seeded')))
    for sid in ids:
        d = os.path.join(VERIF, 'seeded', sid)
        mp = os.path.join(d, 'meta.json')
        if not os.path.exists(os.path.join(d, 'patch.diff')):
            continue
        meta = json.load(open(mp)) if os.path.exists(mp) else {}
        prop = meta.get('property_broken', sid[:3])
        checks = meta.get('checks_to_run', [prop])
        if not clean():
            print('%s: /repo is not clean; refusing to apply' % sid)
            return 2
        r = sh(['git', '-C', REPO, 'apply', os.path.join(d, 'patch.diff')])
        if r.returncode != 0:
            print('%s: patch does not apply: %s' % (sid, r.stdout[-300:]))
            continue
        out = '/var/tmp/seedout-' + sid
        shutil.rmtree(out, ignore_errors=True)
        os.makedirs(out)
        results = []
        try:
            for c in checks:
                t0 = time.time()
                env = dict(os.environ, VF_OUT=out)
                rr = sh([os.path.join(VERIF, 'check'), c], env=env, cwd=VERIF)
                lines = [l[:300] for l in rr.stdout.splitlines() if re.match(r'VIOLATION|UNDECIDED|KNOWN-FINDING', l)]
                results.append({'check': c, 'exit': rr.returncode, 'seconds': round(time.time() - t0), 'lines': lines[:8]})
                print('%s: ./check %s -> exit %d (%ds) %s' % (sid, c, rr.returncode, time.time() - t0, '; '.join(l for l in lines if l.startswith('VIOLATION'))[:300]))
                sys.stdout.flush()
        finally:
            sh(['git', '-C', REPO, 'checkout', '--', '.'])
        if not clean():
            print('%s: /repo not clean after checkout!' % sid)
            return 2
        meta['final_run'] = {'when': time.strftime('%Y-%m-%d %H:%M:%S'), 'protocol': 'git -C /repo apply patch.diff; ./check <id> (VF_OUT=%s); git -C /repo checkout -- .' % out,
                             'results': results, 'caught': any(x['exit'] == 1 for x in results)}
        json.dump(meta, open(mp, 'w'), indent=1)
        shutil.rmtree(out, ignore_errors=True)
    return 0


if __name__ == '__main__':
    sys.exit(main())
