/* euler_axi.spec.h -- contracts for axi_euler (registered as "axisymmetric_euler") and axi_euler_transient (property C02).
 * Oracle: the property statement, cylindrical form with coordinates (r, z[, t]), u radial, w axial:
 *   mass      rho_t        + (rho u)_r   + rho u / r   + (rho w)_z
 *   r-mom     (rho u)_t    + (rho u u)_r + rho u u / r + (rho u w)_z + p_r
 *   z-mom     (rho w)_t    + (rho u w)_r + rho u w / r + (rho w w)_z + p_z
 *   energy    (rho e_t)_t  + (rho u H)_r + rho u H / r + (rho w H)_z
 * i.e. (1/r)(r F)_r + G_z expanded to F_r + F*inv(r) + G_z (DESIGN.md 4/C02), with the conservative energy forms of roy.h.
 * The spec places r on the jet's x slot and z on the z slot (the y slot is unused, V == 0), so the planar part of
 * every operator is EULER_OPERATORS of roy.h and the cylindrical operator adds the flux value times inv(r).
 * Fields (the forms returned by eval_exact_*; u vanishes on the axis by construction):
 *   rho = rho_0 + rho_r cos(a_rhor pi r/L) + rho_z sin(a_rhoz pi z/L) [+ rho_t sin(a_rhot pi t/L)]
 *   p   = p_0   + p_r   sin(a_pr   pi r/L) + p_z   cos(a_pz   pi z/L) [+ p_t   cos(a_pt   pi t/L)]
 *   w   = w_0   + w_r   cos(a_wr   pi r/L) + w_z   sin(a_wz   pi z/L) [+ w_t   cos(a_wt   pi t/L)]
 *   u   = u_r u_z (cos(a_ur pi r/L) - 1) sin(a_uz pi z/L)                                   (steady)
 *   u   = u_r (cos(a_ur pi r/L) - 1) (u_z sin(a_uz pi z/L) + u_t cos(a_ut pi t/L))          (transient) */
#include "roy.h"

/* cylindrical inviscid operators: planar operators in (x := r, z) plus flux / r */
#define AXI_EULER_OPERATORS \
  EULER_OPERATORS; \
  Sc ri_ = vinv(r); \
  Sc ax_mass = op_mass + RU__v * ri_; \
  Sc ax_rmom = op_xmom + RUU__v * ri_; \
  Sc ax_zmom = op_zmom + RUW__v * ri_; \
  Sc ax_energy = op_energy + UH__v * ri_

#if defined(UNIT_axi_euler)
#define AX_RHO ROY_X(jrr, JCOS, rho_r, a_rhor); ROY_Z(jrz, JSIN, rho_z, a_rhoz); JSUM3(RHO, rho_0, jrr, jrz)
#define AX_P   ROY_X(jpr, JSIN, p_r, a_pr);     ROY_Z(jpz, JCOS, p_z, a_pz);     JSUM3(P, p_0, jpr, jpz)
#define AX_W   ROY_X(jwr, JCOS, w_r, a_wr);     ROY_Z(jwz, JSIN, w_z, a_wz);     JSUM3(W, w_0, jwr, jwz)
#define AX_U   ROY_X(jur, JCOS, 1, a_ur); JADDC(jur1, jur, -1); ROY_Z(juz, JSIN, 1, a_uz); JMUL(jurz, jur1, juz); JSCALE(U, u_r * u_z, jurz)
#define AX_COORDS Sc x = r, y = 0, t = 0
#define AX_FIELDS AX_COORDS; AX_RHO; AX_P; AX_W; AX_U; JCONST(V, 0)
static Sc ax_exact_rho(Sc r, Sc z) { AX_COORDS; AX_RHO; return RHO_v; }
static Sc ax_exact_p(Sc r, Sc z) { AX_COORDS; AX_P; return P_v; }
static Sc ax_exact_w(Sc r, Sc z) { AX_COORDS; AX_W; return W_v; }
static Sc ax_exact_u(Sc r, Sc z) { AX_COORDS; AX_U; return U_v; }
static Sc ax_q_rho(Sc r, Sc z) { AX_FIELDS; AXI_EULER_OPERATORS; return ax_mass; }
static Sc ax_q_rho_u(Sc r, Sc z) { AX_FIELDS; AXI_EULER_OPERATORS; return ax_rmom; }
static Sc ax_q_rho_w(Sc r, Sc z) { AX_FIELDS; AXI_EULER_OPERATORS; return ax_zmom; }
static Sc ax_q_rho_e(Sc r, Sc z) { AX_FIELDS; AXI_EULER_OPERATORS; return ax_energy; }
#define AXREQ REQ(VF_PI_OK)
#define CONTRACT_axi_euler__eval_exact_rho_2 AXREQ ENS_EQ(ax_exact_rho(r, z)) FRAME()
#define CONTRACT_axi_euler__eval_exact_p_2   AXREQ ENS_EQ(ax_exact_p(r, z)) FRAME()
#define CONTRACT_axi_euler__eval_exact_u_2   AXREQ ENS_EQ(ax_exact_u(r, z)) FRAME()
#define CONTRACT_axi_euler__eval_exact_w_2   AXREQ ENS_EQ(ax_exact_w(r, z)) FRAME()
#define CONTRACT_axi_euler__eval_q_rho_2     AXREQ ENS_EQ(ax_q_rho(r, z)) FRAME()
#define CONTRACT_axi_euler__eval_q_rho_u_2   AXREQ ENS_EQ(ax_q_rho_u(r, z)) FRAME()
#define CONTRACT_axi_euler__eval_q_rho_w_2   AXREQ ENS_EQ(ax_q_rho_w(r, z)) FRAME()
#define CONTRACT_axi_euler__eval_q_rho_e_2   AXREQ ENS_EQ(ax_q_rho_e(r, z)) FRAME()
#endif

#if defined(UNIT_axi_euler_transient)
#define AXT_RHO ROY_X(jrr, JCOS, rho_r, a_rhor); ROY_Z(jrz, JSIN, rho_z, a_rhoz); ROY_T(jrt, JSIN, rho_t, a_rhot); JSUM4(RHO, rho_0, jrr, jrz, jrt)
#define AXT_P   ROY_X(jpr, JSIN, p_r, a_pr);     ROY_Z(jpz, JCOS, p_z, a_pz);     ROY_T(jpt, JCOS, p_t, a_pt);     JSUM4(P, p_0, jpr, jpz, jpt)
#define AXT_W   ROY_X(jwr, JCOS, w_r, a_wr);     ROY_Z(jwz, JSIN, w_z, a_wz);     ROY_T(jwt, JCOS, w_t, a_wt);     JSUM4(W, w_0, jwr, jwz, jwt)
#define AXT_U   ROY_X(jur, JCOS, 1, a_ur); JADDC(jur1, jur, -1); ROY_Z(juz, JSIN, u_z, a_uz); ROY_T(jut, JCOS, u_t, a_ut); JADD(juzt, juz, jut); \
                JMUL(jurzt, jur1, juzt); JSCALE(U, u_r, jurzt)
#define AXT_COORDS Sc x = r, y = 0
#define AXT_FIELDS AXT_COORDS; AXT_RHO; AXT_P; AXT_W; AXT_U; JCONST(V, 0)
static Sc axt_exact_rho(Sc r, Sc z, Sc t) { AXT_COORDS; AXT_RHO; return RHO_v; }
static Sc axt_exact_p(Sc r, Sc z, Sc t) { AXT_COORDS; AXT_P; return P_v; }
static Sc axt_exact_w(Sc r, Sc z, Sc t) { AXT_COORDS; AXT_W; return W_v; }
static Sc axt_exact_u(Sc r, Sc z, Sc t) { AXT_COORDS; AXT_U; return U_v; }
static Sc axt_q_rho(Sc r, Sc z, Sc t) { AXT_FIELDS; AXI_EULER_OPERATORS; return ax_mass; }
static Sc axt_q_u(Sc r, Sc z, Sc t) { AXT_FIELDS; AXI_EULER_OPERATORS; return ax_rmom; }
static Sc axt_q_w(Sc r, Sc z, Sc t) { AXT_FIELDS; AXI_EULER_OPERATORS; return ax_zmom; }
static Sc axt_q_e(Sc r, Sc z, Sc t) { AXT_FIELDS; AXI_EULER_OPERATORS; return ax_energy; }
#define AXTREQ REQ(VF_PI_OK)
#define CONTRACT_axi_euler_transient__eval_exact_rho_3 AXTREQ ENS_EQ(axt_exact_rho(r, z, t)) FRAME()
#define CONTRACT_axi_euler_transient__eval_exact_p_3   AXTREQ ENS_EQ(axt_exact_p(r, z, t)) FRAME()
#define CONTRACT_axi_euler_transient__eval_exact_u_3   AXTREQ ENS_EQ(axt_exact_u(r, z, t)) FRAME()
#define CONTRACT_axi_euler_transient__eval_exact_w_3   AXTREQ ENS_EQ(axt_exact_w(r, z, t)) FRAME()
#define CONTRACT_axi_euler_transient__eval_q_rho_3     AXTREQ ENS_EQ(axt_q_rho(r, z, t)) FRAME()
#define CONTRACT_axi_euler_transient__eval_q_u_3       AXTREQ ENS_EQ(axt_q_u(r, z, t)) FRAME()
#define CONTRACT_axi_euler_transient__eval_q_w_3       AXTREQ ENS_EQ(axt_q_w(r, z, t)) FRAME()
#define CONTRACT_axi_euler_transient__eval_q_e_3       AXTREQ ENS_EQ(axt_q_e(r, z, t)) FRAME()
#endif
