/* euler_chem.spec.h -- contracts for euler_chem_1d (property C06).
 *
 * Oracle = the property statement: steady 1-D Euler equations for the dissociating mixture N / N2 in thermal
 * equilibrium, applied to the exact fields that eval_exact_* return
 *     RHO_N  = rho_N_0  + rho_N_x  sin(a_rho_N_x  pi x / L)      TT = T_0 + T_x cos(a_Tx pi x / L)
 *     RHO_N2 = rho_N2_0 + rho_N2_x cos(a_rho_N2_x pi x / L)      UU = u_0 + u_x sin(a_ux pi x / L)
 *     RHO    = RHO_N + RHO_N2
 * (no doxygen page exists for this solution; the model below is the one named in the source/test comments:
 *  "Euler equations + chemistry", species N and N2, caller-supplied equilibrium constant.)
 *
 *   species   (RHO_s U)_x = omega_s                          Q_rho_s = (RHO_s U)_x - omega_s
 *   momentum  (RHO U^2 + P)_x = 0                            Q_rho_u = (RHO U^2 + P)_x
 *   energy    (U (RHO e + P + RHO U^2/2))_x = 0              Q_rho_e = (RHO U H)_x
 *
 * Chemistry: N2 + M <=> 2 N + M, third bodies M in {N, N2}; law of mass action with molar concentrations
 *   [N] = RHO_N / M_N,  [N2] = RHO_N2 / M_N2,  M_N2 = 2 M_N
 *   k_f,M = Cf1_M T^etaf1_M exp(-Ea_M / (R T)),   k_b,M = k_f,M / K_eq(T)     (K_eq = the caller's callback at the exact T)
 *   r = sum_M  k_f,M [M] [N2] - k_b,M [M] [N]^2
 *   omega_N = 2 M_N r,   omega_N2 = - M_N2 r  ( = - omega_N: mass is conserved by the reaction).
 * Thermodynamics (thermally perfect, per unit mass):
 *   P = RHO_N Rg_N T + RHO_N2 Rg_N2 T,  Rg_N = R_N,  Rg_N2 = R_N / 2  (same universal constant, M_N2 = 2 M_N)
 *   e_N  = 3/2 Rg_N T + h0_N                                   (translation + formation)
 *   e_N2 = 3/2 Rg_N2 T + Rg_N2 T + e_vib + h0_N2               (translation + rotation + vibration + formation)
 *   e_vib = R_N2 theta_v_N2 / (exp(theta_v_N2 / T) - 1)        (the registered parameter R_N2 appears only here)
 *
 * Rule K: the callback parameter in_func is extracted as the uninterpreted function __CPROVER_uninterpreted_in_func,
 * so every obligation below is proved for ALL functions K_eq (stronger than "all positive callbacks").
 */
#include "roy.h"

#if defined(UNIT_euler_chem_1d)
#ifndef VF_NATIVE
Sc __CPROVER_uninterpreted_in_func(Sc);
#endif

/* exact fields as jets; names chosen not to collide with members (T_x, T_0, u_x, rho_N_x ...) */
#define EC_FIELDS \
  Sc y = 0, z = 0, t = 0; \
  ROY_X(rn_, JSIN, rho_N_x, a_rho_N_x);    JADDC(RHON, rn_, rho_N_0); \
  ROY_X(rn2_, JCOS, rho_N2_x, a_rho_N2_x); JADDC(RHON2, rn2_, rho_N2_0); \
  JADD(RHO, RHON, RHON2); \
  ROY_X(uu_, JSIN, u_x, a_ux);             JADDC(UU, uu_, u_0); \
  ROY_X(tt_, JCOS, T_x, a_Tx);             JADDC(TT, tt_, T_0)

static Sc ec_exact_t(Sc x) { EC_FIELDS; return TT_v; }
static Sc ec_exact_u(Sc x) { EC_FIELDS; return UU_v; }
static Sc ec_exact_rho(Sc x) { EC_FIELDS; return RHO_v; }
static Sc ec_exact_rho_N(Sc x) { EC_FIELDS; return RHON_v; }
static Sc ec_exact_rho_N2(Sc x) { EC_FIELDS; return RHON2_v; }

/* mass production rate of N by N2 + M <=> 2N + M at the point values (rn, rn2, T), for the equilibrium constant keq */
static Sc ec_omega_N(Sc rn, Sc rn2, Sc T, Sc keq)
{
  Sc iRT = vinv(R) * vinv(T);                              /* 1 / (R T), rendered (1/R)(1/T): with inv(R*T) the solvers would have to
                                                              derive inv(R*T) == inv(R) inv(T) from the three a*inv(a)==1 facts to match the
                                                              UF argument of exp -- no answer in 60 s (measured) */
  Sc kf_N = Cf1_N * vpow(T, etaf1_N) * vexp(-Ea_N * iRT);   /* Arrhenius forward rates, third body N / N2 */
  Sc kf_N2 = Cf1_N2 * vpow(T, etaf1_N2) * vexp(-Ea_N2 * iRT);
  Sc iK = vinv(keq);
  Sc iM = vinv(M_N);
  Sc cN = rn * iM;                                         /* [N]  = rho_N / M_N      */
  Sc cN2 = rn2 * iM * LIT(1, 2);                           /* [N2] = rho_N2 / (2 M_N) */
  Sc r = kf_N * cN * cN2 - kf_N * iK * cN * cN * cN         /* third body N  */
       + kf_N2 * cN2 * cN2 - kf_N2 * iK * cN2 * cN * cN;    /* third body N2 */
  return 2 * M_N * r;
}

static Sc ec_flux_N_x(Sc x) { EC_FIELDS; JMUL(F_, RHON, UU); return F__x; }      /* (RHO_N  U)_x */
static Sc ec_flux_N2_x(Sc x) { EC_FIELDS; JMUL(F_, RHON2, UU); return F__x; }    /* (RHO_N2 U)_x */
static Sc ec_flux_x(Sc x) { EC_FIELDS; JMUL(F_, RHO, UU); return F__x; }         /* (RHO    U)_x */

static Sc ec_q_rho_N(Sc x)
{
  EC_FIELDS;
  Sc omega_N = ec_omega_N(RHON_v, RHON2_v, TT_v, __CPROVER_uninterpreted_in_func(TT_v));
  return ec_flux_N_x(x) - omega_N;
}
static Sc ec_q_rho_N2(Sc x)
{
  EC_FIELDS;
  Sc omega_N2 = -ec_omega_N(RHON_v, RHON2_v, TT_v, __CPROVER_uninterpreted_in_func(TT_v));   /* omega_N2 = -omega_N */
  return ec_flux_N2_x(x) - omega_N2;
}

/* thermodynamics on jets */
#define EC_THERMO \
  Sc RgN = R_N, RgN2 = R_N * LIT(1, 2); \
  JMUL(RNT_, RHON, TT); JMUL(RN2T_, RHON2, TT); \
  JSCALE(PN_, RgN, RNT_); JSCALE(PN2_, RgN2, RN2T_); JADD(P, PN_, PN2_)             /* P = sum rho_s Rg_s T */

static Sc ec_q_rho_u(Sc x)
{
  EC_FIELDS; EC_THERMO;
  JMUL(RU_, RHO, UU); JMUL(RUU_, RU_, UU);
  return RUU__x + P_x;
}

static Sc ec_q_rho_e(Sc x)
{
  EC_FIELDS; EC_THERMO;
  /* e_vib = R_N2 theta / (exp(theta / T) - 1) */
  JINV(IT_, TT); JSCALE(TH_, theta_v_N2, IT_); JEXP(AL_, TH_); JADDC(AM1_, AL_, -1); JINV(IAM1_, AM1_);
  JSCALE(EVIB, R_N2 * theta_v_N2, IAM1_);
  /* rho e = rho_N (3/2 Rg_N T + h0_N) + rho_N2 (5/2 Rg_N2 T + e_vib + h0_N2) */
  JSCALE(EN_a, LIT(3, 2) * RgN, RNT_);   JSCALE(EN_b, h0_N, RHON);   JADD(REN_, EN_a, EN_b);
  JSCALE(EN2_a, LIT(5, 2) * RgN2, RN2T_); JSCALE(EN2_b, h0_N2, RHON2); JMUL(EN2_c, RHON2, EVIB);
  JADD(EN2_ab, EN2_a, EN2_b); JADD(REN2_, EN2_ab, EN2_c);
  JADD(RE_, REN_, REN2_);
  /* rho H = rho e + P + rho U^2 / 2 */
  JMUL(U2_, UU, UU); JMUL(RU2_, RHO, U2_); JSCALE(RKE_, LIT(1, 2), RU2_);
  JADD(REP_, RE_, P); JADD(RHOH_, REP_, RKE_);
  JMUL(UH_, UU, RHOH_);
  return UH__x;
}

/* admissibility (property quantifier): T > 0 at the point; L, R, M_N, K_eq(T), exp(theta/T)-1 non-zero are implicit in vinv */
#define ECREQ REQ(VF_PI_OK && ec_exact_t(x) > 0)
#define CONTRACT_euler_chem_1d__eval_exact_t_1      REQ(VF_PI_OK) ENS_EQ(ec_exact_t(x)) FRAME()
#define CONTRACT_euler_chem_1d__eval_exact_u_1      REQ(VF_PI_OK) ENS_EQ(ec_exact_u(x)) FRAME()
#define CONTRACT_euler_chem_1d__eval_exact_rho_1    REQ(VF_PI_OK) ENS_EQ(ec_exact_rho(x)) FRAME()
#define CONTRACT_euler_chem_1d__eval_exact_rho_N_1  REQ(VF_PI_OK) ENS_EQ(ec_exact_rho_N(x)) FRAME()
#define CONTRACT_euler_chem_1d__eval_exact_rho_N2_1 REQ(VF_PI_OK) ENS_EQ(ec_exact_rho_N2(x)) FRAME()
/* species: the second ensures is the mass-sum lemma in machine-checked form: code_N2 + spec_N == (RHO U)_x and
 * code_N + spec_N2 == (RHO U)_x for every K_eq; with the first ensures of the other function (code_s == spec_s) this is
 * eval_q_rho_N + eval_q_rho_N2 == (RHO U)_x (also visible in the spec: omega_N2 = -omega_N, fluxes add linearly). */
#define CONTRACT_euler_chem_1d__eval_q_rho_N_2  ECREQ ENS_EQ(ec_q_rho_N(x))  ENS(RET + ec_q_rho_N2(x) == ec_flux_x(x)) FRAME()
#define CONTRACT_euler_chem_1d__eval_q_rho_N2_2 ECREQ ENS_EQ(ec_q_rho_N2(x)) ENS(RET + ec_q_rho_N(x) == ec_flux_x(x)) FRAME()
#define CONTRACT_euler_chem_1d__eval_q_rho_u_1  ECREQ ENS_EQ(ec_q_rho_u(x)) FRAME()
#define CONTRACT_euler_chem_1d__eval_q_rho_e_1  ECREQ ENS_EQ(ec_q_rho_e(x)) FRAME()
#endif
