/* roy.h -- shared spec vocabulary for the Roy-type fields of the Euler / Navier-Stokes families.
 *   phi = phi_0 + phi_x f(a_phix pi x / L) + phi_y g(a_phiy pi y / L) + ... (+ phi_t h(a_phit pi t / L))
 * ROY(r, JSIN|JCOS, amp, a, cx,cy,cz,ct): jet r = amp * f(a * PI * (cx x + cy y + cz z + ct t) / L)
 * with (cx,cy,cz,ct) one-hot.  Uses x,y,z,t,L,PI from the enclosing scope. */
#ifndef VF_ROY_H
#define VF_ROY_H
#define ROY(r, JF, amp, a, cx, cy, cz, ct) \
  Sc r##_k = (a) * PI * vinv(L); \
  JLIN(r##_th, r##_k * ((cx) * x + (cy) * y + (cz) * z + (ct) * t), (cx) * r##_k, (cy) * r##_k, (cz) * r##_k, (ct) * r##_k); \
  JF(r##_f, r##_th); JSCALE(r, amp, r##_f)
#define ROY_X(r, JF, amp, a) ROY(r, JF, amp, a, 1, 0, 0, 0)
#define ROY_Y(r, JF, amp, a) ROY(r, JF, amp, a, 0, 1, 0, 0)
#define ROY_Z(r, JF, amp, a) ROY(r, JF, amp, a, 0, 0, 1, 0)
#define ROY_T(r, JF, amp, a) ROY(r, JF, amp, a, 0, 0, 0, 1)
/* sums of jets */
#define JSUM3(r, c0, a, b) JADD(r##_s1, a, b); JADDC(r, r##_s1, c0)
#define JSUM4(r, c0, a, b, c) JADD(r##_s1, a, b); JADD(r##_s2, r##_s1, c); JADDC(r, r##_s2, c0)
#define JSUM5(r, c0, a, b, c, d) JADD(r##_s1, a, b); JADD(r##_s2, r##_s1, c); JADD(r##_s3, r##_s2, d); JADDC(r, r##_s3, c0)
/* inviscid operators on jets RHO,U,V,W,P (absent velocity components: JCONST(..,0)); Gamma from scope.
 * Energy uses rho*e_t = p/(Gamma-1) + rho|u|^2/2 and rho*H = Gamma p/(Gamma-1) + rho|u|^2/2
 * (lemma_energy_forms ties these to e_t = p/((Gamma-1)rho)+|u|^2/2, H = e_t + p/rho for rho != 0). */
#define EULER_OPERATORS \
  JMUL(RU_, RHO, U); JMUL(RV_, RHO, V); JMUL(RW_, RHO, W); \
  JMUL(RUU_, RU_, U); JMUL(RUV_, RU_, V); JMUL(RUW_, RU_, W); JMUL(RVV_, RV_, V); JMUL(RVW_, RV_, W); JMUL(RWW_, RW_, W); \
  JMUL(UU_, U, U); JMUL(VV_, V, V); JMUL(WW_, W, W); JADD(Q1_, UU_, VV_); JADD(Q2_, Q1_, WW_); JSCALE(KE_, LIT(1, 2), Q2_); \
  JMUL(RKE_, RHO, KE_); Sc gm1i_ = vinv(Gamma - 1); JSCALE(PE_, gm1i_, P); JADD(RET_, PE_, RKE_); \
  JSCALE(GP_, Gamma * gm1i_, P); JADD(RHOH_, GP_, RKE_); \
  JMUL(UH_, U, RHOH_); JMUL(VH_, V, RHOH_); JMUL(WH_, W, RHOH_); \
  Sc op_mass = RHO_t + RU__x + RV__y + RW__z; \
  Sc op_xmom = RU__t + RUU__x + RUV__y + RUW__z + P_x; \
  Sc op_ymom = RV__t + RUV__x + RVV__y + RVW__z + P_y; \
  Sc op_zmom = RW__t + RUW__x + RVW__y + RWW__z + P_z; \
  Sc op_energy = RET__t + UH__x + VH__y + WH__z
#endif
