#!/usr/bin/env python3
"""xreg -- mechanical extraction of the handle registry (MasterMS<Scalar> in masa_core.cpp) to C over lib/vstore.h:
get_list_mms, MasterMS::init_mms, select_mms, list_mms, ~MasterMS, masa_printid.  Same technique as xstore.py."""
import re, hashlib
from xtract import tokenize, strip_comments, match_brace_text, ExtractionBreak
import xapi
from xstl import splice_loop_contracts


def norm(toks):
    return ' '.join(v for k, v in toks if k != 'nl')


def body_of(s, header_re, what):
    m = re.search(header_re, s)
    if not m:
        raise ExtractionBreak('%s not found' % what)
    j = s.index('{', m.end() - 1) if s[m.end() - 1] != '{' else m.end() - 1
    end = match_brace_text(s, j + 1)
    return s[j + 1:end - 1]


VOCAB = {'if', 'else', 'for', 'while', 'return', 'int', 'vkey', 'vobj', 'void', 'NULL', 'my_name', 'masa_name', 'anim_n', 'anim_p', 'anim_at', 'anim_push',
         'ms_new', 'ms_delete', 'OBJ_NAME', 'KEY_EMPTY', 'MASA_MAP', 'VEND', 'GHOST_MSG', 'GHOST_EXIT', '_master_pointer', '_master_map_size', '_master_map_val',
         '_master_map_present', '_master_map_find', '_master_map_set', '_master_map_begin', '_master_map_next', '_master_map_clear', 'selected', 'break', 'continue'}


def common_rules(t, hits, fname):
    def sub(rule, pat, rep):
        nonlocal t
        t, n = re.subn(pat, rep, t)
        if n:
            hits[rule] = hits.get(rule, 0) + n
    MT = r'(?:typename )?(?:std :: )?map < std :: string , manufactured_solution < Scalar > \* >'
    VT = r'(?:std :: )?vector < manufactured_solution < Scalar > \* >'
    # the local vector of candidates
    sub('anim-decl', r'std :: vector < manufactured_solution < Scalar > \* > anim ;', 'anim_n = 0 ;')
    sub('get-list', r'get_list_mms (?:< Scalar > )?\( anim \) ;', 'reg__get_list_mms ( ) ;')
    sub('new', r'anim \. push_back \( new (\w+) < Scalar > \( \) \) ;', r'anim_push ( ms_new ( ID_\1 ) ) ;')
    sub('anim-size', r'anim \. size \( \)', 'anim_n')
    sub('name-decl', r'std :: string (name|str) ;', r'vkey \1 ;')
    sub('ret-name', r'anim \[ (\w+) \] -> return_name \( & (\w+) \) ;', r'\2 = OBJ_NAME ( anim_p [ anim_at ( \1 ) ] ) ;')
    sub('ret-name', r'\( \* it \) -> return_name \( & (\w+) \) ;', r'\1 = OBJ_NAME ( anim_p [ anim_at ( it ) ] ) ;')
    sub('ret-name', r'\( iter -> second \) -> return_name \( & (\w+) \) ;', r'\1 = OBJ_NAME ( _master_map_val [ iter ] ) ;')
    sub('map-empty', r'! _master_map \. empty \( \)', '( _master_map_size != 0 )')
    sub('empty', r'(\w+) \. empty \( \)', r'( \1 == KEY_EMPTY )')
    sub('mapped', r'std :: string mapped_name = masa_name ;', 'vkey mapped_name = masa_name ;')
    sub('masa-map', r'MASA :: masa_map \( & mapped_name \) ;', 'mapped_name = MASA_MAP ( mapped_name ) ;')
    sub('sel-decl', r'manufactured_solution < Scalar > \* selected = NULL ;', 'vobj selected = 0 ;')
    sub('sel-null', r'selected (==|!=) NULL', r'selected \1 0')
    sub('sel-set', r'selected = anim \[ (\w+) \] ;', r'selected = anim_p [ anim_at ( \1 ) ] ;')
    sub('assign', r'_master_map \[ my_name \] = _master_pointer = selected ;', r'_master_pointer = selected ; _master_map_set ( my_name , _master_pointer ) ;')
    sub('assign', r'_master_map \[ my_name \] = _master_pointer = anim \[ (\w+) \] ;',
        r'_master_pointer = anim_p [ anim_at ( \1 ) ] ; _master_map_set ( my_name , _master_pointer ) ;')
    sub('delete', r'delete anim \[ (\w+) \] ;', r'ms_delete ( anim_p [ anim_at ( \1 ) ] ) ;')
    sub('delete', r'delete \* it ;', r'ms_delete ( anim_p [ anim_at ( it ) ] ) ;')
    sub('delete', r'delete iter -> second ;', r'ms_delete ( _master_map_val [ iter ] ) ;')
    sub('delete', r'delete (\w+) -> second ;', r'ms_delete ( _master_map_val [ \1 ] ) ;')
    sub('delete', r'delete _master_pointer ;', r'if ( _master_pointer != 0 ) ms_delete ( _master_pointer ) ;')      # delete of a null pointer is a no-op in C++
    sub('count', r'_master_map \. count \( (\w+) \)', r'( _master_map_find ( \1 ) != VEND ? 1 : 0 )')
    # map iteration / lookup
    sub('find', MT + r' :: iterator (\w+) = _master_map \. find \( (\w+) \) ;', r'int \1 = _master_map_find ( \2 ) ;')
    sub('end', r'(\w+) != _master_map \. end \( \)', r'\1 != VEND')
    sub('end', r'(\w+) == _master_map \. end \( \)', r'\1 == VEND')
    sub('second', r'_master_pointer = (\w+) -> second ;', r'_master_pointer = _master_map_val [ \1 ] ;')
    sub('second', r'\b(it|iter) -> second\b', r'_master_map_val [ \1 ]')     # any other use of a registry iterator's mapped object (read or write)
    sub('map-loop', r'for \( ' + MT + r' :: (?:const_)?iterator (\w+) = this -> _master_map \. begin \( \) ; \1 != this -> _master_map \. end \( \) ; \1 \+\+ \)',
        r'for ( int \1 = _master_map_begin ( ) ; \1 != VEND ; \1 = _master_map_next ( \1 ) )')
    sub('vec-loop', r'for \( typename ' + VT + r' :: const_iterator it = anim \. begin \( \) ; it != anim \. end \( \) ; \+\+ it \)',
        'for ( int it = 0 ; it != anim_n ; ++ it )')
    sub('map-clear', r'_master_map \. clear \( \) ;', '_master_map_clear ( ) ;')
    sub('this', r'this -> list_mms \( \)', 'reg__list_mms ( )')
    sub('this', r'this -> size \( \)', '_master_map_size')
    sub('X', r'\bmasa_exit\b', 'GHOST_EXIT')
    sub('unsigned', r'unsigned int (\w+) = ', r'int \1 = ')
    for bad in ('::', '->', '<<', 'std ', 'iterator', '"', ' new ', ' delete ', 'this'):
        if bad in t:
            k = t.index(bad)
            raise ExtractionBreak('%s: %r not covered by the rule table near: %s' % (fname, bad.strip(), t[max(0, k - 70):k + 70]))
    # every identifier must belong to the registry vocabulary (globals of contracts/registry.spec.h + vstore.h, parameters, declared locals)
    local = set(re.findall(r'\b(?:int|vkey|vobj) (\w+)\b', t))
    for ident in re.findall(r'[A-Za-z_]\w*', t):
        if ident in VOCAB or ident in local or ident.startswith(('ID_', 'LOOP_reg__', 'reg__')):
            continue
        raise ExtractionBreak('%s refers to %r, which is not in the vocabulary of the registry contracts (new state or a new callee needs a contract first)' % (fname, ident))
    t = re.sub(r' ; ', ' ;\n', t)
    t = re.sub(r'(\{|\})', r'\n\1\n', t)
    return t


def extract_registry(src_path):
    s = strip_comments(open(src_path).read())
    # default configuration: MetaPhysicL solutions are not compiled in
    s, n = re.subn(r'#ifdef\s+HAVE_METAPHYSICL.*?#endif', '', s, flags=re.S)
    specs = [
        ('reg__get_list_mms', 'int', 'void', r'int\s+get_list_mms\s*\(\s*std::vector<manufactured_solution<Scalar>\*>&\s*anim\s*\)\s*\{'),
        ('reg__init_mms', 'void', 'vkey my_name, vkey masa_name', r'void\s+MasterMS<Scalar>::init_mms\s*\(\s*const\s+std::string&\s*my_name,\s*const\s+std::string&\s*masa_name\s*\)\s*\{'),
        ('reg__select_mms', 'void', 'vkey my_name', r'void\s+MasterMS<Scalar>::select_mms\s*\(\s*const\s+std::string&\s*my_name\s*\)\s*\{'),
        ('reg__list_mms', 'void', 'void', r'void\s+MasterMS<Scalar>::list_mms\s*\(\s*\)\s*const\s*\{'),
        ('reg__dtor', 'void', 'void', r'~MasterMS\s*\(\s*\)\s*\{'),
        ('reg__masa_printid', 'int', 'void', r'int\s+MASA::masa_printid\s*\(\s*\)\s*\{'),
    ]
    out, info, catalogue = [], [], []
    for cname, ret, params, hre in specs:
        body = body_of(s, hre, cname)
        sha = hashlib.sha256(body.encode()).hexdigest()
        toks, nmsg = xapi.rewrite_output(tokenize(body))
        toks, nloops = splice_loop_contracts(toks, cname)
        hits = {'O': nmsg, 'loops': nloops}
        t = common_rules(norm(toks), hits, cname)
        if cname == 'reg__get_list_mms':
            catalogue = re.findall(r'ms_new \( ID_(\w+) \)', t)
        info.append({'function': cname, 'sha256': sha, 'hits': hits})
        out.append('/* %s  sha256(source body)=%s */\n%s %s(%s)\nCONTRACT_%s\n{\n%s\n}\n' % (cname, sha, ret, cname, params, cname, t))
    if len(catalogue) < 30:
        raise ExtractionBreak('only %d catalogue entries recognised in get_list_mms' % len(catalogue))
    return '\n'.join(out), info, catalogue


if __name__ == '__main__':
    t, info, cat = extract_registry('/repo/src/masa_core.cpp')
    print(t)
    print(cat)
    for i in info:
        print(i)
