"""C10 purity of evaluation.
 (a) FRAME: for every evaluator (and helper member function) of every catalogue class a generated frame-only contract
     `assigns(<members that are NOT registered parameters>, message/exit ghosts)` is enforced (DFCC checks every write, also
     through callees): evaluating never writes a parameter visible through masa_get_param / masa_get_vec.
 (b) HISTORY INDEPENDENCE for the classes that cache intermediates in unregistered members: a 2-safety harness calls the evaluator,
     havocs every cached member, calls it again with the same arguments and asserts the same result (uninterpreted functions make
     this exact).  For the wall-bounded FANS-SA class, whose update() crashes CBMC, the same experiment is run natively (bounded).
 (c) the extractor vets every identifier: an evaluator that referred to anything but its own members, locals, arguments, pi/PI and the
     prelude functions is an extraction break (exit 2), so there is no other state to depend on."""
import os, re, sys, json, time
from concurrent.futures import ThreadPoolExecutor
import xtract, xreg, ctorcheck
from xtract import ExtractionBreak, tokenize
from common import *
from cbmcjob import cbmc_job
import numeric

TRUSTED = numeric.TRUSTED_NUMERIC + [
    'registered parameters of a class = the names its constructor passes to register_var/register_vec (read from the source on this run)',
    'sod_1d::rtbis is represented by a frame-only contract here (its own contract incl. frame is C08)',
    'classes with vector parameters: data length <= 8 (loops unwound); navierstokes_4d_compressible_powerlaw: its evaluators are const member functions of a private base (cannot write members) and are not re-checked here',
]
SKIP_FUNCS = {'cp_normal': {'eval_cen_mom': 'int -> rational conversion of k is ill-typed in CBMC 6.11 (see C08); body assigns only locals (static scan)',
                            'factorial': 'recursive helper of eval_cen_mom; body assigns nothing'}}


def assigned_ids(body_c):
    """identifiers that occur as the target of an assignment in the extracted C text (static scan)"""
    toks = [t for t in tokenize(body_c) if t[0] != 'nl']
    out = set()
    for i, (k, v) in enumerate(toks):
        if k == 'op' and v in ('=', '+=', '-=', '*=', '/=', '++', '--') and i > 0:
            j = i - 1
            if toks[j][1] == ']':
                d = 0
                while True:
                    if toks[j][1] == ']':
                        d += 1
                    elif toks[j][1] == '[':
                        d -= 1
                        if d == 0:
                            break
                    j -= 1
                j -= 1
            if toks[j][0] == 'id':
                out.add(toks[j][1])
        if k == 'id' and v == 'VF_SETVAR' and toks[i + 1][1] == '(':
            out.add(toks[i + 2][1])
    return out


def class_info(cls):
    src = ctorcheck.find_src(cls)
    hdr = 'smasa.h' if cls == 'cp_normal' else 'masa_internal.h'
    decl = xtract.parse_class_decl(open(os.path.join(SRC, hdr)).read(), cls)
    regs, vecs = set(), set()
    for ret, name, args, body in xtract.find_functions(open(os.path.join(SRC, src)).read(), cls):
        if name in (cls, 'init_var'):
            for m in re.finditer(r'register_var\s*\(\s*"(\w+)"\s*,\s*&\s*(\w+)\s*\)', body):
                regs.add(m.group(2))
            for m in re.finditer(r'register_vec\s*\(\s*"(\w+)"\s*,\s*(\w+)\s*\)', body):
                vecs.add(m.group(2))
    return src, hdr, decl, regs, vecs


def run(tier, seed):
    t0 = time.time()
    rep = Report('C10')
    d = scratch('c10')
    _, _, cat = xreg.extract_registry(os.path.join(SRC, 'masa_core.cpp'))
    only = os.environ.get('VF_ONLY')
    jobs, not_under, static_notes, two_safety = [], [], [], []
    wmap, regset, static_ok = {}, {}, []
    cache_classes = []
    try:
        for cls in cat:
            if cls in ctorcheck.FIXTURES:
                continue
            if cls in ctorcheck.SPECIAL:
                not_under.append('%s: evaluators are const member functions of the private nsctpl base (a write to a member does not compile); not re-checked' % cls)
                continue
            src, hdr, decl, regs, vecs = class_info(cls)
            decl2, funcs = xtract.extract_class(os.path.join(SRC, src), os.path.join(SRC, hdr), cls)
            unreg = [m for m in decl.scalars if m not in regs]
            written = set()
            for f in funcs:
                written |= (assigned_ids(f.body_c) & set(decl.scalars))
            caches = sorted(written & set(unreg))
            regset[cls] = set(regs)
            for f in funcs:
                wmap[f.cname] = (assigned_ids(f.body_c) & set(decl.scalars), set(f.calls))
            bad_static = sorted(written & regs)
            if bad_static:
                static_notes.append('%s: static scan: registered parameter(s) %s assigned inside member functions' % (cls, bad_static))
            cd = os.path.join(d, cls)
            os.makedirs(cd, exist_ok=True)
            frame = ', '.join(unreg + list(decl.ints) + ['ghost_msg', 'ghost_exit', 'ghost_nan'])     # int/bool members cannot be registered (register_var takes a Scalar*)
            spec = ['/* GENERATED frame-only contracts for %s: assigns = the members its constructor does NOT register (%d), plus the ghosts */' % (cls, len(unreg))]
            for cb in sorted({n for f in funcs for (t, n, k) in f.args if k == 'funcptr'}):
                spec.append('#ifndef VF_NATIVE\nSc __CPROVER_uninterpreted_%s(Sc);   /* caller-supplied callback: any function (rule K) */\n#endif' % cb)
            # length as int and as its real-valued twin agree (enumerated: CBMC 6.11 cannot convert a symbolic int to a rational)
            req = ' && '.join(['1'] + ['(%s)' % ' || '.join('(%s_size == %d && %s_size_r == %d)' % (v, n_, v, n_) for n_ in range(0, 9)) for v in decl.vectors])
            for f in funcs:
                if f.name == 'rtbis':
                    spec.append('Sc __CPROVER_uninterpreted_sod_pm(Sc, Sc, Sc, int, Sc, Sc, Sc, Sc, Sc, Sc);')
                    spec.append('/* rtbis: deterministic function of its arguments and of the members func() reads; frame proved in C08 (split contracts) */')
                    spec.append('#define CONTRACT_%s REQ(1) ENS_EQ(__CPROVER_uninterpreted_sod_pm(x1, x2, xacc, JMAX, Gamma, mu, pl, pr, cl, cr)) FRAME(ghost_msg, ghost_exit)' % f.cname)
                    continue
                spec.append('#define CONTRACT_%s REQ(%s) FRAME(%s)' % (f.cname, req, frame))
            sp = os.path.join(cd, 'frame.spec.h')
            open(sp, 'w').write('\n'.join(spec) + '\n')
            text = xtract.render_unit(cls, decl2, funcs, sp, prelude='real.h', defines=[])
            open(os.path.join(cd, 'unit.c'), 'w').write(text)
            for f in funcs:
                if f.name in SKIP_FUNCS.get(cls, {}):
                    not_under.append('%s::%s: %s' % (cls, f.name, SKIP_FUNCS[cls][f.name]))
                    continue
                if f.name == 'rtbis':
                    continue
                if only and not re.search(only, f.cname):
                    continue
                hf = os.path.join(cd, 'h_%s.c' % f.cname)
                open(hf, 'w').write(numeric.harness_text(f))
                repl = ['sod_1d__rtbis_4'] if cls == 'sod_1d' and 'sod_1d__rtbis_4' in f.calls else []
                jobs.append(('frame', cls, f, hf, cd, repl, bool(decl.vectors)))
            if caches:
                cache_classes.append(cls)
            # 2-safety for classes with caches
            if caches:
                for f in funcs:
                    if not f.name.startswith('eval_') or f.ret != 'Sc' or (only and not re.search(only, f.cname)):
                        continue
                    decls, call = [], []
                    for t, n, k in f.args:
                        if k == 'funcptr':
                            call.append('0')
                        else:
                            decls.append('%s a_%s;' % (t, n))
                            call.append('a_' + n)
                    hav = ' '.join('{ Sc nd_%s; %s = nd_%s; }' % (m, m, m) for m in caches)
                    hn = 'h2_%s' % f.cname
                    hf = os.path.join(cd, hn + '.c')
                    open(hf, 'w').write('#include "unit.c"\nvoid %s(void)\n{ %s\n  Sc r1 = %s(%s);\n  /* havoc every cached (unregistered, written) member */ %s\n  Sc r2 = %s(%s);\n'
                                        '  __CPROVER_assert(r1 == r2, "history independence: same result from any cache state");\n  __CPROVER_assert(0, "canary");\n}\n' % (
                                            hn, ' '.join(decls), f.cname, ', '.join(call), hav, f.cname, ', '.join(call)))
                    jobs.append(('2safety', cls, f, hf, cd, ['sod_1d__rtbis_4'] if cls == 'sod_1d' else [], bool(decl.vectors)))
                    two_safety.append('%s (caches: %s)' % (f.cname, ', '.join(caches)))
            elif caches:
                two_safety.append('%s: bounded native 2-safety (update() crashes CBMC): see bounded' % cls)
    except ExtractionBreak as e:
        rep.undecide('extraction break: %s' % e)
        write_evidence('C10', tier, seed, 'proof', {'evaluations': 0, 'distinct_nontrivial': 0, 'explanation': 'extraction break: %s' % e}, TRUSTED, time.time() - t0, 0)
        return rep.finish()
    tmo = 300 if tier == 'quick' else 900      # the wall-bounded FANS-SA bodies take ~80 s each alone, ~120 s under load

    def work(j):
        kind, cls, f, hf, cd, repl, hasvec = j
        extra = ['--unwind', '10', '--unwinding-assertions'] if hasvec else []
        if kind == 'frame':
            return j, cbmc_job(cd, f.cname, hf, 'h_' + f.cname, enforce=f.cname, replace=repl, smt=True, timeout=tmo, extra_cbmc=extra, defines=['VF_NO_IDX_CHECK'])
        return j, cbmc_job(cd, 'h2_' + f.cname, hf, 'h2_' + f.cname, enforce=None, replace=repl, smt=True, timeout=tmo, extra_cbmc=extra, own_prefixes=('h2_' + f.cname,), defines=['VF_NO_IDX_CHECK'])

    with ThreadPoolExecutor(max_workers=NCPU) as ex:
        results = list(ex.map(work, jobs))
    n_dis = 0
    per_fn, samples = [], []
    for (kind, cls, f, hf, cd, repl, hasvec), r in results:
        per_fn.append({'function': f.cname, 'check': kind, 'status': r.status, 'backend': r.backend, 'seconds': round(r.seconds, 2), 'canary': r.canary,
                       'obligations': len(r.obligations)})
        key = f.cname + ('.frame' if kind == 'frame' else '.history')
        if r.status == 'discharged' and r.canary in ('reachable',):
            n_dis += len(r.obligations)
            if len(samples) < 4 and kind == '2safety' or len(samples) < 2:
                samples.append({'function': f.cname, 'check': kind, 'obligations': [o[0] for o in r.obligations if 'assigns' in o[0] or 'assertion' in o[0]][:6]})
            continue
        if r.status == 'discharged':
            n_dis += len(r.obligations)      # frame obligations with an undecided canary: the frame check has no precondition to be vacuous about
            continue
        payload = {'function': f.cname, 'class': cls, 'check': kind, 'status': r.status, 'failed_obligations': r.failed, 'detail': r.detail, 'source_sha256': f.sha,
                   'verifier_output': r.log[-6000:], 'checker_cmd': r.cmd}
        if r.status == 'refuted':
            rep.violation(key, payload, no_input=True)
        elif r.status in ('undecided', 'error') and kind == 'frame' and ('nvariant' in r.log or r.status == 'error'):
            # CBMC itself fails on this body (simplifier invariant violation, see C05): fall back to the static scan of assignment targets,
            # transitively through member-function calls; reported under `bounded`/static, never counted as discharged
            w = writes_of(cls, f, wmap)
            if w & regset[cls]:
                payload['failed_obligations'] = ['static scan: assigns registered parameter(s) %s' % sorted(w & regset[cls])]
                rep.violation(key, payload, no_input=True)
            else:
                static_ok.append({'function': f.cname, 'label': 'static scan only (CBMC 6.11 crashes on this body); never counted as proved',
                                  'writes': sorted(w), 'registered_written': []})
        elif r.status == 'undecided' and kind == 'frame':
            # per-obligation fallback: frame obligations are small
            r2 = cbmc_job(cd, f.cname + '.split', hf, 'h_' + f.cname, enforce=f.cname, replace=repl, smt=True, timeout=40, split=True, split_workers=6, defines=['VF_NO_IDX_CHECK'],
                          expect_canary=False, solvers=['cvc5', 'z3'], extra_cbmc=['--unwind', '10', '--unwinding-assertions'] if hasvec else [])
            ff = [x for x in r2.failed if re.search(r'\.assigns\.|loop_assigns', x)]
            if ff:
                payload['failed_obligations'] = ff
                rep.violation(key, payload, no_input=True)
            elif r2.status == 'discharged':
                n_dis += len(r2.obligations)
            else:
                rep.undecide('%s: frame obligations undecided (%s)' % (f.cname, r2.detail))
        else:
            rep.undecide('%s: %s %s (%s)' % (f.cname, kind, r.status, r.detail))
    # bounded native history experiments for every class that caches intermediates (the only refutation route with a concrete input, and the stand-in for the
    # wall-bounded class whose update() crashes CBMC)
    bounded = []
    for cls in cache_classes:
        if only and not re.search(only, cls):
            continue
        b = native_history(cls, d, seed, 2000 if tier == 'quick' else 200000)
        bounded.append(b)
        ce = b.get('counterexample')
        if b.get('mismatch') and ce and ce['experiment'] in ('B', 'C'):
            w, c, log = replay_history(ce, os.path.join(d, cls + '@replay'))
            ce['real_warm'], ce['real_cold'], ce['replay_log'] = w, c, log[-1500:]
            if w is not None and w != c:
                rep.violation(cls + '.history', dict(ce, kind='history', failed_obligations=['%s: result depends on what was evaluated before (%s)' % (ce['function'], 'a parameter change' if ce['experiment'] == 'B' else 'another point')]))
            else:
                rep.undecide('%s: native history experiment found a mismatch the real library does not reproduce (%s)' % (cls, log[-200:]))
        elif b.get('mismatch'):
            rep.violation(cls + '.history', {'function': cls + ' evaluators', 'detail': b, 'failed_obligations': ['history independence (native, random cache states)']}, no_input=True)
        elif b.get('error') or not b.get('evaluations'):
            rep.undecide('%s: native history experiment did not run (%s)' % (cls, str(b.get('error'))[-300:]))
    cov = {'obligations': n_dis + len(rep.violations) + len(rep.undecided), 'discharged': n_dis,   # obligations that fail as recorded known findings are counted under known_finding_obligations only
          
           'checker_cmd': results[0][1].cmd if results else 'n/a', 'trusted_base': TRUSTED,
           'functions_under_contract': sorted({j[2].cname for j, r in results}), 'functions_not_under_contract': not_under,
           'per_function': per_fn, 'two_safety': two_safety, 'static_scan': static_notes, 'bounded': bounded + static_ok,
           'known_finding_obligations': len(rep.known_hits), 'samples': samples or [{'note': 'nothing discharged'}],
           'explanation': __doc__}
    write_evidence('C10', tier, seed, 'proof', cov, TRUSTED, time.time() - t0, len(rep.violations))
    print('C10: %d frame/2-safety jobs, %d obligations discharged, %d violations, %d undecided, %d known findings (%.1fs)' % (
        len(results), n_dis, len(rep.violations), len(rep.undecided), len(rep.known_hits), time.time() - t0))
    return rep.finish()


def vector_index_check(rep, d, tier, only=None):
    """C19 (indexes outside a container): every operator[] on a std::vector member inside the member functions of the catalogue classes that own
    vector parameters carries the obligation 0 <= index < size() (extraction rule Vidx).  Checked per function for every vector length 0..8 and
    arbitrary contents/parameters (loops unwound with unwinding assertions): BOUNDED by the length, never counted as proved.
    -> (per_function, bounded_info)"""
    _, _, cat = xreg.extract_registry(os.path.join(SRC, 'masa_core.cpp'))
    jobs, per, binfo = [], [], []
    for cls in sorted(set(cat) | {'cp_normal'}, key=lambda c: (cat + ['cp_normal']).index(c)):
        if cls in ctorcheck.FIXTURES or cls in ctorcheck.SPECIAL:
            continue
        src, hdr, decl, regs, vecs = class_info(cls)
        if not decl.vectors:
            continue
        decl2, funcs = xtract.extract_class(os.path.join(SRC, src), os.path.join(SRC, hdr), cls)
        cd = os.path.join(d, 'vidx-' + cls)
        os.makedirs(cd, exist_ok=True)
        req = ' && '.join(['(%s)' % ' || '.join('(%s_size == %d && %s_size_r == %d)' % (v, n_, v, n_) for n_ in range(0, 9)) for v in decl.vectors])
        spec = ['/* GENERATED: precondition = every vector length in 0..8 (int length and its real twin agree); no postcondition: the obligations are the Vidx assertions in the body */']
        for cb in sorted({n for f in funcs for (t, n, k) in f.args if k == 'funcptr'}):
            spec.append('Sc __CPROVER_uninterpreted_%s(Sc);' % cb)
        for f in funcs:
            spec.append('#define CONTRACT_%s REQ(%s) FRAME(%s)' % (f.cname, req, ', '.join(list(decl.scalars) + ['ghost_msg', 'ghost_exit', 'ghost_nan'])))
        sp = os.path.join(cd, 'vidx.spec.h')
        open(sp, 'w').write('\n'.join(spec) + '\n')
        open(os.path.join(cd, 'unit.c'), 'w').write(xtract.render_unit(cls, decl2, funcs, sp, prelude='real.h', defines=[]))
        for f in funcs:
            if f.name in SKIP_FUNCS.get(cls, {}) or 'VF_IDX' not in f.body_c or (only and not re.search(only, f.cname)):
                continue
            hf = os.path.join(cd, 'h_%s.c' % f.cname)
            open(hf, 'w').write(numeric.harness_text(f))
            jobs.append((cls, f, hf, cd))

    def work(j):
        cls, f, hf, cd = j
        # contracts are not enforced (no frame to check here): the body is executed from the assumed precondition and its assertions are the obligations
        return j, cbmc_job(cd, f.cname, hf, 'h_' + f.cname, enforce=f.cname, smt=True, timeout=120 if tier == 'quick' else 900,
                           extra_cbmc=['--unwind', '10', '--unwinding-assertions'], split=True, split_workers=4, expect_canary=False)
    with ThreadPoolExecutor(max_workers=NCPU) as ex:
        results = list(ex.map(work, jobs))
    for (cls, f, hf, cd), r in results:
        idx = [o for o in r.obligations if 'vector index' in o[1]]
        per.append({'function': f.cname, 'check': 'vector index (bounded: lengths 0..8)', 'status': r.status, 'backend': r.backend, 'seconds': round(r.seconds, 2),
                    'canary': r.canary, 'index_obligations': len(idx)})
        bad = [x for x in r.failed if re.search(r'assertion|bounds|unwind|at least one', x)]
        if r.status == 'refuted' and bad:
            rep.violation(f.cname + '.vector_index', {'function': f.cname, 'class': cls, 'status': r.status, 'failed_obligations': bad, 'detail': r.detail,
                                                      'verifier_output': r.log[-6000:], 'checker_cmd': r.cmd}, no_input=True)
        elif r.status == 'discharged' and idx:
            binfo.append({'function': f.cname, 'label': 'bounded (never counted as proved)', 'bound': 'every vector length 0..8, loops unwound 10 with unwinding assertions; contents and parameters arbitrary',
                          'obligations_passed': len(idx), 'what': 'operator[] index within size() at every element access'})
        else:
            rep.undecide('%s: vector-index obligations %s (%s)' % (f.cname, r.status, r.detail))
    return per, binfo


def writes_of(cls, f, wmap, seen=None):
    seen = seen or set()
    if f.cname in seen:
        return set()
    seen.add(f.cname)
    w, calls = wmap.get(f.cname, (set(), set()))
    out = set(w)
    class _F:
        pass
    for c in calls:
        g = _F()
        g.cname = c
        out |= writes_of(cls, g, wmap, seen)
    return out


HIST_BOX = {'sod_1d': ('-0.5 + drand48()', '0.1 + 0.4 * drand48()'), None: ('0.05 + 2.9 * drand48()', '1e-4 + 0.2 * drand48()')}

HIST_REPLAY = r"""
#include <masa_internal.h>
#include <cstdio>
#include <cstdlib>
namespace MASA { void masa_exit(int c) { std::printf("masa_exit(%%d)\n", c); std::exit(c); } }
using namespace MASA;
int main() {
  /* history: set the parameters, evaluate once (warm-up, experiment B: same point, C: another point), B: change ONE registered parameter, evaluate again ... */
  %(cls)s<long double> o; o.init_var();
%(sets)s
  (void) o.%(method)s(%(wargs)s);
  %(chg_o)s
  long double rw = o.%(method)s(%(args)s);
  /* ... versus a fresh object holding the same final parameters */
  %(cls)s<long double> c; c.init_var();
%(csets)s
  %(chg_c)s
  long double rc = c.%(method)s(%(args)s);
  std::printf("WARM %%.21Lg\nCOLD %%.21Lg\n", rw, rc);
  return rw == rc ? 0 : 1;
}
"""


def native_history(cls, d, seed, N):
    """bounded: extracted evaluators compiled natively (long double).  Per draw and evaluator two experiments:
       (A) the evaluator is called from two random states of the cached (unregistered) members with equal parameters and arguments;
       (B) the evaluator is called once (warm-up), ONE registered parameter is changed, it is called again, and the result is compared with a call from a
           random cache state (what a fresh handle with the same final parameters computes).  Bit-equal results are required in both."""
    src, hdr, decl, regs, vecs = class_info(cls)
    names = reg_names(cls, src)
    decl2, funcs = xtract.extract_class(os.path.join(SRC, src), os.path.join(SRC, hdr), cls, skip=())
    unreg = [m for m in decl.scalars if m not in regs]
    rl = sorted(regs)
    evs = [f for f in funcs if f.name.startswith('eval_') and f.ret == 'Sc' and len(f.args) == 2 and all(k != 'funcptr' for t, n, k in f.args)]
    cd = os.path.join(d, cls + '@native2')
    os.makedirs(cd, exist_ok=True)
    bx, by = HIST_BOX.get(cls, HIST_BOX[None])
    o = ['#include "native.h"', xtract.render_unit(cls, decl2, funcs, None, prelude='native.h')]
    o.append('static Sc rnd(void) { return (Sc)(4.0 * drand48() - 2.0); }')
    o.append('static Sc *regp[] = { %s };' % ', '.join('&' + m for m in rl))
    o.append('static void rc_(void) { %s %s }' % (' '.join('%s = rnd();' % m for m in unreg), ' '.join('%s = (int)(lrand48() %% 2);' % m for m in decl.ints)))   # int/bool members are never registered: cache state as well
    o.append('static void dump(const char *w, int fi, int k, Sc nv, Sc x, Sc y, Sc r1, Sc r2) { printf("MISMATCH %%s %%d %%d %%.21Lg %%.21Lg %%.21Lg %%.21Lg %%.21Lg", w, fi, k, nv, x, y, r1, r2); for (int i = 0; i < %d; i++) printf(" %%.21Lg", *regp[i]); printf("\\n"); }' % len(rl))
    o.append('int main(int argc, char **argv) { srand48(atol(argv[1])); long N = atol(argv[2]); long bad = 0, n = 0;')
    o.append('  for (long it = 0; it < N; it++) { %s__init_var_0(); pi = PI = acosl(-1.0L);' % cls)
    o.append('    ' + ' '.join('%s *= (Sc)(1.0 + 0.3 * (2.0 * drand48() - 1.0));' % m for m in rl))
    o.append('    Sc x = %s, y = %s;' % (bx, by))
    for fi, f in enumerate(evs):
        o.append('    { Sc x0 = %s, y0 = %s; (void)%s(x0, y0); Sc rw = %s(x, y); rc_(); Sc rcold = %s(x, y); n++;'
                 ' if (!(rw == rcold) && !(rw != rw && rcold != rcold)) { if (!bad) { dump("C", %d, -1, 0, x, y, rw, rcold); printf("WARMARGS %%.21Lg %%.21Lg\\n", x0, y0); } bad++; } }' % (bx, by, f.cname, f.cname, f.cname, fi))
        o.append('    { int k = (int)(lrand48() %% %d); Sc old = *regp[k]; (void)%s(x, y); Sc nv = old * (Sc)(1.0 + 0.2 * (drand48() - 0.5)); *regp[k] = nv; Sc rw = %s(x, y); rc_(); Sc rcold = %s(x, y); *regp[k] = old; n++;'
                 ' if (!(rw == rcold) && !(rw != rw && rcold != rcold)) { if (!bad) dump("B", %d, k, nv, x, y, rw, rcold); bad++; } }' % (len(rl), f.cname, f.cname, f.cname, fi))
        o.append('    { rc_(); Sc r1 = %s(x, y); rc_(); Sc r2 = %s(x, y); n++; if (!(r1 == r2) && !(r1 != r1 && r2 != r2)) { if (!bad) dump("A", %d, -1, 0, x, y, r1, r2); bad++; } }' % (f.cname, f.cname, fi))
    o.append('  } printf("DONE %ld %ld\\n", n, bad); return 0; }')
    open(os.path.join(cd, 'n2.c'), 'w').write('\n'.join(o) + '\n')
    rc, out, s, to = run_cmd(['gcc', '-O1', '-w', '-I', LIB, '-I', CONTRACTS, 'n2.c', '-o', 'n2', '-lm'], cd, 300)
    if rc != 0:
        return {'function': cls, 'label': 'bounded', 'error': out[-800:]}
    rc, out, s, to = run_cmd([os.path.join(cd, 'n2'), str(seed), str(N)], cd, 900)
    m = re.search(r'DONE (\d+) (\d+)', out)
    res = {'function': cls + ' evaluators (native history experiments A: random cache states, B: warm-up / one parameter changed / compare with cold, C: warm-up at another point / compare with cold)',
           'label': 'bounded (never counted as proved)', 'evaluations': int(m.group(1)) if m else 0,
           'mismatch': int(m.group(2)) if m else None, 'bound': '%d random parameter/point draws x %d evaluators x 3 experiments, bit-equal results required' % (N, len(evs)),
           'first': (re.findall(r'MISMATCH.*', out) or [''])[0]}
    mm = re.search(r'MISMATCH (\w) (\d+) (-?\d+) (\S+) (\S+) (\S+) (\S+) (\S+)((?: \S+)*)', out)
    if mm:
        vals = mm.group(9).split()
        f = evs[int(mm.group(2))]
        k = int(mm.group(3))
        res['counterexample'] = {'experiment': mm.group(1), 'class': cls, 'source': src, 'method': f.name, 'function': f.cname, 'args': [mm.group(5), mm.group(6)],
                                 'params': {names.get(m_, m_): v for m_, v in zip(rl, vals)}, 'changed_param': names.get(rl[k], rl[k]) if k >= 0 else None, 'new_value': mm.group(4),
                                 'native_warm': mm.group(7), 'native_cold': mm.group(8)}
        wa = re.search(r'WARMARGS (\S+) (\S+)', out)
        res['counterexample']['warm_args'] = [wa.group(1), wa.group(2)] if wa else res['counterexample']['args']
    return res


def reg_names(cls, src):
    names = {}
    for ret, name, args, body in xtract.find_functions(open(os.path.join(SRC, src)).read(), cls):
        if name in (cls, 'init_var'):
            for m in re.finditer(r'register_var\s*\(\s*"(\w+)"\s*,\s*&\s*(\w+)\s*\)', body):
                names[m.group(2)] = m.group(1)
    return names


def replay_history(ce, workdir):
    """the warm/cold experiment on the REAL class template (long double) from /repo's working tree -> (warm, cold, log) or (None, None, log)"""
    os.makedirs(workdir, exist_ok=True)
    sets = '\n'.join('  o.set_var("%s", %sL);' % (k, numeric._ld(v)) for k, v in ce['params'].items())
    args = ', '.join(numeric._ld(a) + 'L' for a in ce['args'])
    chg = 'X.set_var("%s", %sL);' % (ce['changed_param'], numeric._ld(ce['new_value'])) if ce.get('changed_param') else ''
    prog = HIST_REPLAY % {'cls': ce['class'], 'sets': sets, 'csets': sets.replace('  o.', '  c.'), 'method': ce['method'], 'args': args,
                          'wargs': ', '.join(numeric._ld(a) + 'L' for a in ce.get('warm_args', ce['args'])),
                          'chg_o': chg.replace('X.', 'o.'), 'chg_c': chg.replace('X.', 'c.')}
    open(os.path.join(workdir, 'replay.cpp'), 'w').write(prog)
    srcs = [os.path.join(SRC, ce['source']), os.path.join(SRC, 'masa_class.cpp')]
    rc, out, s, to = run_cmd(['g++', '-O0', '-w', '-I', SRC, '-I', REPO, '-DHAVE_CONFIG_H', 'replay.cpp'] + srcs + ['-o', 'replay'], workdir, 600)
    if rc != 0:
        return None, None, 'replay build failed: ' + out[-1500:]
    rc, out, s, to = run_cmd([os.path.join(workdir, 'replay')], workdir, 60)
    w, c = re.search(r'^WARM (\S+)$', out, re.M), re.search(r'^COLD (\S+)$', out, re.M)
    if not (w and c):
        return None, None, 'replay run failed: ' + out[-500:]
    return w.group(1), c.group(1), out


def run_cmd(cmd, cwd, timeout):
    import common
    return common.run(cmd, cwd=cwd, timeout=timeout)


def replay(path):
    p = json.load(open(path))
    if p.get('kind') == 'history':
        d = scratch('c10-replay')
        w, c, log = replay_history(p, d)
        print(log[-1500:])
        if w is None:
            print('replay could not run')
            return EXIT_UNDECIDED
        print('real library, %s::%s%s: after warm-up at %s%s -> %s ; fresh object with the same parameters -> %s' % (
            p['class'], p['method'], tuple(p['args']), tuple(p.get('warm_args', p['args'])), ' + set_var(%s)' % p['changed_param'] if p.get('changed_param') else '', w, c))
        return EXIT_VIOLATION if w != c else 0
    print('replay file carries no concrete input (no-failing-input-found); failed obligation(s): %s of %s' % (p.get('failed_obligations'), p.get('function')))
    print((p.get('verifier_output') or '')[-3000:])
    return EXIT_VIOLATION
