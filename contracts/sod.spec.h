/* sod.spec.h -- contracts for sod_1d (property C08, Sod shock tube).
 * Notation (exact Riemann solution, Toro ch. 4 / the comments in sod.cpp): left state (rhol,pl), right state (rhor,pr), at rest;
 * mu = (Gamma-1)/(Gamma+1); sound speeds cl, cr; pm = pressure between the waves, root of
 *     F(p) = u_shock(p) - u_fan(p),   u_fan(p) = 2 cl/(Gamma-1) (1 - (p/pl)^((Gamma-1)/(2 Gamma)))      [Riemann invariant through the fan]
 *                                     u_shock(p) = (p - pr) sqrt((1-mu) / (rhor (p + mu pr)))          [Rankine-Hugoniot]
 * (velocity equal on both sides of the contact).  The code's func() is F/cr in a differently factored form; relating the two
 * needs sqrt(a) sqrt(b) = sqrt(ab), which the axioms of lib/real.h do not contain: func is BOUNDED (sod_bounded.h). */
Sc ghost_dx;       /* rule G: the bracket width local `dx` of rtbis, captured at its return statements */
Sc __CPROVER_uninterpreted_sodf(Sc);
/* within rtbis (which assigns no member) func is a function of its argument only */
#define SF(p) __CPROVER_uninterpreted_sodf(p)
#define CONTRACT_sod_1d__func_1 REQ(1) ENS_EQ(SF(pm)) FRAME()

#if defined(UNIT_sod_rtbis)
/* ---- rtbis (bisection), split at its loop by rule S (vf/loopsplit.py).  Hoare while-rule with
 *        INV: not returned, no exit, the bracket [myval, myval+dx] holds a sign change of func (value <= 0 at myval, >= 0 at myval+dx)
 *        Q:   result is the exhausted-budget sentinel -1 (+ error message), or a point whose residual is below the threshold in MAGNITUDE,
 *             or the non-positive end of a sign-change bracket narrower than xacc  (=> the root is located to the requested width) ---- */
#define RT_INV (vf_returned == 0 && ghost_exit == 0 && 0 <= j && j <= JMAX && thresh > 0 && SF(myval) <= 0 && SF(myval + dx) >= 0)
#define RT_Q ((vf_ret == -1 && (ghost_msg & 2) != 0) || vabs(SF(vf_ret)) < thresh || \
              (vabs(ghost_dx) < xacc && SF(vf_ret) <= 0 && SF(vf_ret + ghost_dx) >= 0))
#define CONTRACT_sod_1d__rtbis_prologue \
  REQ(xacc > 0 && 0 <= JMAX && ghost_exit == 0 && vf_returned == 0) \
  FRAME(ghost_msg, ghost_exit, j, dx, f, fmid, myval, thresh) \
  ENS(SF(x1) * SF(x2) >= 0 ==> ghost_exit == 1001) \
  ENS(SF(x1) * SF(x2) < 0 ==> (RT_INV && j == 0))
#define CONTRACT_sod_1d__rtbis_body \
  REQ(RT_INV && j < JMAX && JMAX < 1000000 && xacc > 0) \
  FRAME(j, dx, xmid, fmid, myval, ghost_dx, vf_ret, vf_returned) \
  ENS(vf_returned ? RT_Q : RT_INV)
#define CONTRACT_sod_1d__rtbis_epilogue \
  REQ(RT_INV && !(j < JMAX)) \
  FRAME(ghost_msg, ghost_dx, vf_ret, vf_returned) \
  ENS(vf_returned && RT_Q)
#endif

#if defined(UNIT_sod_eval)
/* ---- the exact Riemann solution for (rhol,pl,0 | rhor,pr,0), written from the textbook relations (independent of the code) ---- */
Sc __CPROVER_uninterpreted_sod_pm(Sc, Sc, Sc, int, Sc, Sc, Sc, Sc, Sc, Sc);
/* the value rtbis returns is a function of its arguments and of the members func reads (rtbis's own contract: unit sod_1d@rtbis) */
#define SOD_PM_OF(x1, x2, xacc, JMAX) __CPROVER_uninterpreted_sod_pm(x1, x2, xacc, JMAX, Gamma, mu, pl, pr, cl, cr)
#define CONTRACT_sod_1d__rtbis_4 REQ(1) ENS_EQ(SOD_PM_OF(x1, x2, xacc, JMAX)) FRAME(ghost_msg, ghost_exit)
#ifdef VF_NATIVE
static Sc sod_native_pm(Sc a_, Sc b_, Sc c_, int d_) { return sod_1d__rtbis_4(a_, b_, c_, d_); }
#undef SOD_PM_OF
#define SOD_PM_OF(x1, x2, xacc, JMAX) sod_native_pm(x1, x2, xacc, JMAX)
#endif
/* Sod's states as the code fixes them (note: pr = 0.125, the classical Sod tube has p_R = 0.1) */
#define SOD_STATES Sc PL = 1, PR = LIT(1, 8), RL = 1, RR = LIT(1, 8); Sc CL = vsqrt(Gamma * PL * vinv(RL)); Sc CR = vsqrt(Gamma * PR * vinv(RR))
#define SOD_WAVES(pm) \
  Sc gm1 = Gamma - 1; \
  Sc rhoml_ = vpow(RL * (pm * vinv(PL)), 1 * vinv(Gamma));                         /* isentropic through the fan: rho/rhol = (p/pl)^(1/Gamma) (rhol = 1) */ \
  Sc vm_ = 2 * CL * vinv(gm1) * (1 - vpow(pm * vinv(PL), gm1 * vinv(2 * Gamma)));   /* Riemann invariant through the fan */ \
  Sc rhomr_ = RR * ((pm + mu * PR) * vinv(PR + mu * pm));                           /* Rankine-Hugoniot density ratio */ \
  Sc vs_ = vm_ * vinv(1 - RR * vinv(rhomr_));                                       /* shock speed from mass conservation */ \
  Sc vt_ = CL - vm_ * vinv(1 - mu)                                                  /* tail of the fan */
static Sc sod_spec_rho(Sc x, Sc t, Sc pm)
{
  SOD_STATES; SOD_WAVES(pm);
  if (x <= -CL * t) return RL;
  if (x <= -vt_ * t) return vpow(RL * (-mu * (x * vinv(CL * t)) + (1 - mu)), 2 * vinv(gm1));
  if (x <= vm_ * t) return rhoml_;
  if (x <= vs_ * t) return rhomr_;
  return RR;
}
static Sc sod_spec_u(Sc x, Sc t, Sc pm)
{
  SOD_STATES; SOD_WAVES(pm);
  if (x <= -CL * t) return 0;
  if (x <= -vt_ * t) return (1 - mu) * (x * vinv(t) + CL);
  if (x <= vs_ * t) return vm_;
  return 0;
}
#define SOD_PM_CALL SOD_PM_OF(LIT(1, 8), 1, VF_EPS(), 100)
#define SOD_CACHE pl, pr, rhol, rhor, cl, cr
#define CONTRACT_sod_1d__eval_q_rho_2   REQ(ghost_exit == 0) ENS_EQ(sod_spec_rho(x, t, SOD_PM_CALL)) FRAME(SOD_CACHE, ghost_msg, ghost_exit)
#define CONTRACT_sod_1d__eval_q_rho_u_2 REQ(ghost_exit == 0) ENS_EQ(sod_spec_rho(x, t, SOD_PM_CALL) * sod_spec_u(x, t, SOD_PM_CALL)) FRAME(SOD_CACHE, ghost_msg, ghost_exit)
#endif
