"""C14 catalogue integrity: per-class constructor/init_var obligations (ctorcheck) + catalogue registration list (get_list_mms contract)."""
import os, time, json
import ctorcheck, regcheck, apicheck
from common import *

TRUSTED = ['see C11 (store functions executed from their extracted bodies over the reference containers of lib/vstore.h, IEEE double)',
           'documented dimension = the <n>d token of the class name, else the table DOC_DIM in vf/ctorcheck.py',
           'std::string semantics of lib/vstr.h reference bodies for masa_map on the concrete catalogue names',
           'both scalar instantiations share the template text (C++ semantics); that every documented evaluator returns a finite value at the defaults is NOT covered here (floating-point evaluation); overriding is covered as: arity of each declared evaluator fits the dimension (ctorcheck e) and each API forwarder reaches the same-named evaluator'] + apicheck.TRUSTED_API

def run(tier, seed):
    t0 = time.time()
    rep = Report('C14')
    d = scratch('c14')
    n_dis, per, samples, not_under = ctorcheck.run_ctor_checks(rep, d, tier, os.environ.get('VF_ONLY'))
    # registration list: one fresh object per entry, nothing else (contract of get_list_mms)
    jobs, nu2, info, cat = regcheck.jobs_for(d, names={'reg__get_list_mms'})
    res = regcheck.run_jobs(d, jobs, tier)
    r_dis, r_per, r_samples = regcheck.account(rep, res, info)
    n_dis += r_dis
    # reachability through the documented entry points: every masa_eval_* forwarder reaches the evaluator of the same field and arity of the selected object
    abase = os.path.join(d, 'api')
    a_per, a_samples = [], []
    if not os.environ.get('VF_ONLY') or os.environ['VF_ONLY'].startswith('api'):
        ajobs, anot, ainfo = apicheck.build({'forwarders'}, abase, only=os.environ.get('VF_ONLY'))
        ares = apicheck.run_jobs(ajobs, abase, tier)
        a_dis, a_per, a_samples = apicheck.account(rep, ares, abase)
        n_dis += a_dis
        nu2 = nu2 + ['%s: %s' % x for x in anot]
    cov = {'obligations': n_dis + len(rep.violations) + len(rep.undecided), 'discharged': n_dis,   # obligations that fail as recorded known findings are counted under known_finding_obligations only
          
           'checker_cmd': 'goto-cc | goto-instrument --dfcc | cbmc (SAT, constants propagate) per class; see per_function', 'trusted_base': TRUSTED,
           'functions_under_contract': [p['function'] for p in per + r_per + a_per], 'functions_not_under_contract': not_under + nu2,
           'per_function': per + r_per + a_per, 'catalogue': cat, 'bounded': [], 'samples': (samples + r_samples + a_samples[:1]) or [{'note': 'nothing discharged'}],
           'explanation': 'for each of the catalogue classes (except the two fixtures and the macro-registered power-law class): constructor + init_var extracted and executed '
                          'with the extracted store functions: (a) every name registered once, (b) sanity_check()==0, (c) init_var()==0, (d) init_var restores all values from any state, '
                          '(e) dimension literal == documented dimension and evaluator arities fit, (f) each mmsname is its own masa_map normal form (extracted masa_map executed on it), names unique; '
                          'get_list_mms allocates exactly one object per catalogue entry; every masa_eval_* forwarder of masa_core.cpp calls the evaluator of the same field and arity on the selected object '
                          '(forwarder contracts generated from the naming convention, as in C15).'}
    write_evidence('C14', tier, seed, 'proof', cov, TRUSTED, time.time() - t0, len(rep.violations))
    print('C14: %d class/catalogue obligations groups, %d obligations discharged, %d violations, %d undecided (%.1fs)' % (len(per) + len(r_per), n_dis, len(rep.violations), len(rep.undecided), time.time() - t0))
    return rep.finish()

def replay(path):
    p = json.load(open(path))
    print('replay file carries no concrete input (no-failing-input-found); failed obligation(s): %s of %s' % (p.get('failed_obligations'), p.get('function')))
    print((p.get('verifier_output') or '')[-3000:])
    return EXIT_VIOLATION
