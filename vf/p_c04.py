"""C04 Laplace and Burgers model problems: units and runner"""
from numeric import Unit, run_numeric, replay_file

def units():
    return [
        Unit('laplace_2d', 'laplace.cpp', 'laplace_burgers.spec.h', defines=['UNIT_laplace_2d 1'],
             select=r'^eval_(q|exact)_'),
        Unit('burgers_equation', 'burgers_equation.cpp', 'laplace_burgers.spec.h', defines=['UNIT_burgers_equation 1'],
             select=r'^eval_(q|exact)_'),
    ]

def run(tier, seed):
    return run_numeric('C04', units(), tier, seed, design_ref='4/C04')

replay = replay_file
