"""apicheck.py -- contracts for the API layer: forwarders of masa_core.cpp, MasterMS::get_ms / verify_pointer_sanity /
masa_exit, base-class stubs (masa_internal.h), extern "C" wrappers (cmasa.cpp).  Contracts are GENERATED from each
function's name by the documented naming convention (the table below is the specification, not the code)."""
import os, re, json, time
from concurrent.futures import ThreadPoolExecutor
import xapi
from xtract import ExtractionBreak
from common import *
from cbmcjob import cbmc_job

TRUSTED_API = [
    'calls leaving the unit (virtual call on the selected object, C++ template called from a C wrapper) are uninterpreted functions of their arguments plus a ghost call record; C++ virtual dispatch / overload resolution by arity is language semantics, not re-verified',
    'std::string / std::vector / out-pointer arguments are opaque handles passed through unchanged; std::string(const char*) is the uninterpreted STR_OF',
    'masa_exit is a ghost event (code recorded); execution after it in the C rendering is not real',
    'extractor rule table of vf/xapi.py; expected-callee table of vf/apicheck.py (naming convention = specification)',
    'CBMC 6.11 DFCC, SAT back end, IEEE double bit-precise',
]

UTIL = {'masa_set_param': 'set_var', 'masa_get_param': 'get_var', 'masa_set_vec': 'set_vec', 'masa_get_vec': 'get_vec',
        'masa_init_param': 'init_var', 'masa_sanity_check': 'sanity_check', 'masa_display_param': 'display_var',
        'masa_display_vec': 'display_vec', 'masa_purge_default_param': 'purge_var', 'masa_get_name': 'return_name',
        'masa_get_dimension': 'return_dim', 'masa_test_poly': 'poly_test', 'pass_func': 'pass_function',
        'masa_select_mms': 'select_mms', 'masa_init': 'init_mms', 'masa_list_mms': 'list_mms',
        'masa_eval_central_moment': 'eval_cen_mom', 'masa_eval_posterior_mean': 'eval_post_mean',
        'masa_eval_posterior_variance': 'eval_post_var', 'masa_eval_source_boundary': 'eval_q_u_boundary'}
RET_ZERO = {'masa_get_name', 'masa_get_dimension', 'masa_select_mms', 'masa_init', 'masa_list_mms'}


def expected_method(api):
    if api in UTIL:
        return UTIL[api]
    m = re.match(r'^masa_eval_source_(\w+)$', api)
    if m:
        return 'eval_q_' + m.group(1)
    m = re.match(r'^masa_eval_exact_(\w+)$', api)
    if m:
        return 'eval_exact_' + m.group(1)
    m = re.match(r'^masa_eval_grad_(\w+)$', api)
    if m:
        return 'eval_g_' + m.group(1)
    m = re.match(r'^masa_eval_(\w+)$', api)
    if m:
        return 'eval_' + m.group(1)
    return None


C_EXC = {'masa_set_array': 'masa_set_vec', 'masa_get_array': 'masa_get_vec', 'masa_display_array': 'masa_display_vec'}
C_STATUS = {'masa_init_param', 'masa_sanity_check', 'masa_get_array'}


def expected_cxx(cname):
    if cname in C_EXC:
        return C_EXC[cname]
    m = re.match(r'^masa_eval_(\d)d_(\w+)$', cname)
    if m:
        return 'masa_eval_' + m.group(2)
    return cname


FRAME_G = 'ghost_msg, ghost_exit, ghost_ncalls, ghost_callee, ghost_obj, __CPROVER_object_whole(ghost_ad), __CPROVER_object_whole(ghost_ai)'


def rec_args(f, ids):
    ptype = {n: c for _, n, c in f.params}
    conds = []
    for i, a in enumerate(ids):
        c = ptype.get(a, 'h')
        if c == 's':
            conds.append('SAME(ghost_ad[%d], %s)' % (i, a))
        elif c == 'p':
            conds.append('ghost_ai[%d] == __CPROVER_old(*%s)' % (i, a))
        else:
            conds.append('ghost_ai[%d] == %s' % (i, a))
    return conds


def forwarder_contract(f, calls):
    em = expected_method(f.name)
    if em is None:
        return None
    with_obj = f.callee[4]
    prefix = 'ms_' if with_obj else 'reg_'
    ids = [n for _, n, _ in f.params]          # expected: every parameter, in order
    codes = f.codes or 'v'
    rty = 'Sc' if f.ret == 'Sc' else 'int'
    sym = '%s%s_%s' % (prefix, em, codes)
    calls.use(sym, f.codes, rty, with_obj)
    uf = '__CPROVER_uninterpreted_%s(%s)' % (sym, ', '.join((['_master_pointer'] if with_obj else []) + [('*' + a if c == 'p' else a) for _, a, c in f.params]))
    ok = ['ghost_exit == 0', 'ghost_ncalls == __CPROVER_old(ghost_ncalls) + 1', 'ghost_callee == FID_%s' % sym] + rec_args(f, ids)
    if with_obj:
        ok.append('ghost_obj == _master_pointer')
    if f.ret == 'Sc':
        ok.append('SAME(__CPROVER_return_value, %s)' % uf)
    elif f.ret == 'int':
        ok.append('__CPROVER_return_value == 0' if f.name in RET_ZERO else '__CPROVER_return_value == %s' % uf)
    c = ['__CPROVER_requires(ghost_exit == 0 && 0 <= ghost_ncalls && ghost_ncalls < 1000000)', '__CPROVER_assigns(%s)' % FRAME_G]
    if with_obj:
        c.append('__CPROVER_ensures(_master_pointer == 0 ==> (ghost_exit == 1001 && (ghost_msg & 4) != 0))')
        c.append('__CPROVER_ensures(_master_pointer != 0 ==> (%s))' % ' && '.join(ok))
        c.append('__CPROVER_ensures(_master_pointer != 0 ==> ghost_msg == __CPROVER_old(ghost_msg))')
    else:
        c.append('__CPROVER_ensures(%s)' % ' && '.join(ok))
    return ' \\\n  '.join(c)


def cwrapper_contract(f, calls):
    if f.name == 'masa_get_array':
        sym = 'cxx_masa_get_vec_hh'
        calls.use(sym, 'hh', 'int', False)
        return ' \\\n  '.join([
            '__CPROVER_requires(0 <= ghost_ncalls && ghost_ncalls < 1000000 && 0 <= ghost_vec_size && ghost_vec_size <= VEC_CAP)',
            '__CPROVER_assigns(%s, *n, __CPROVER_object_whole(array))' % FRAME_G,
            '__CPROVER_ensures(ghost_ncalls == __CPROVER_old(ghost_ncalls) + 1 && ghost_callee == FID_%s && ghost_ai[0] == param && ghost_ai[1] == VEC_LOCAL)' % sym,
            '__CPROVER_ensures(__CPROVER_return_value == __CPROVER_uninterpreted_%s(param, VEC_LOCAL))' % sym,
            '__CPROVER_ensures(*n == ghost_vec_size)',
            '__CPROVER_ensures((0 <= ghost_k && ghost_k < ghost_vec_size) ==> SAME(array[ghost_k], ghost_vec[ghost_k]))'])
    if f.name == 'masa_set_array':
        sym = 'cxx_masa_set_vec_hh'
        calls.use(sym, 'hh', 'int', False)
        return ' \\\n  '.join([
            '__CPROVER_requires(0 <= ghost_ncalls && ghost_ncalls < 1000000)',
            '__CPROVER_assigns(%s)' % FRAME_G,
            '__CPROVER_ensures(ghost_ncalls == __CPROVER_old(ghost_ncalls) + 1 && ghost_callee == FID_%s && ghost_ai[0] == param && ghost_ai[1] == VEC_FROM(val, __CPROVER_old(*n)))' % sym])
    ex = expected_cxx(f.name)
    name, codes, ids, rty = f.callees[0]
    # expected arguments: the wrapper's own parameters in order; char* parameters converted by std::string(...) first
    exp_ids = []
    conv = {v[1]: k for k, v in f.locals_h.items()}          # param -> local converted from it
    for _, n, c in f.params:
        exp_ids.append(n)
    ecodes = f.codes or 'v'
    sym = 'cxx_%s_%s' % (ex, ecodes)
    calls.use(sym, f.codes, 'Sc' if f.ret == 'Sc' else 'int', False)
    args = []
    recs = []
    for i, (_, n, c) in enumerate(f.params):
        if n in conv:
            val = 'STR_OF(%s)' % n
        else:
            val = n
        args.append(('*' + val) if c == 'p' else val)
        if c == 's':
            recs.append('SAME(ghost_ad[%d], %s)' % (i, val))
        elif c == 'p':
            recs.append('ghost_ai[%d] == __CPROVER_old(*%s)' % (i, val))
        else:
            recs.append('ghost_ai[%d] == %s' % (i, val))
    uf = '__CPROVER_uninterpreted_%s(%s)' % (sym, ', '.join(args))
    ok = ['ghost_ncalls == __CPROVER_old(ghost_ncalls) + 1', 'ghost_callee == FID_%s' % sym] + recs
    if f.ret == 'Sc':
        ok.append('SAME(__CPROVER_return_value, %s)' % uf)
    elif f.ret == 'int':
        if f.name in C_STATUS:
            ok.append('__CPROVER_return_value == %s' % uf)
        else:
            ok.append('(__CPROVER_return_value == 0 || __CPROVER_return_value == %s)' % uf)
    frame = FRAME_G
    if f.name == 'masa_get_name':
        # "masa_get_name writes the solution name into the caller's buffer": the string object handed to the C++ call is copied back
        ok.append('ghost_bufdst == name && ghost_bufsrc == STR_OF(name) && ghost_bufn > STRLEN(STR_OF(name))')   # the whole string including its terminator
        frame += ', ghost_bufdst, ghost_bufsrc, ghost_bufn'
    return ' \\\n  '.join(['__CPROVER_requires(0 <= ghost_ncalls && ghost_ncalls < 1000000' + (' && 0 <= STRLEN(STR_OF(name)) && STRLEN(STR_OF(name)) < 100000' if f.name == 'masa_get_name' else '') + ')', '__CPROVER_assigns(%s)' % frame, '__CPROVER_ensures(%s)' % ' && '.join(ok)])


STUB_CONTRACT = ('__CPROVER_assigns(ghost_msg) \\\n  __CPROVER_ensures(__CPROVER_return_value == -1.33) \\\n'
                 '  __CPROVER_ensures((ghost_msg & 2) != 0)')

HELPER_CONTRACTS = '''
#define CONTRACT_MasterMS__verify_pointer_sanity \\
  __CPROVER_requires(ghost_exit == 0) __CPROVER_assigns(ghost_msg, ghost_exit) \\
  __CPROVER_ensures(_master_pointer == 0 ==> (ghost_exit == 1001 && (ghost_msg & 4) != 0)) \\
  __CPROVER_ensures(_master_pointer != 0 ==> (ghost_exit == 0 && ghost_msg == __CPROVER_old(ghost_msg)))
#define CONTRACT_MasterMS__get_ms \\
  __CPROVER_requires(ghost_exit == 0) __CPROVER_assigns(ghost_msg, ghost_exit) \\
  __CPROVER_ensures(__CPROVER_return_value == _master_pointer) \\
  __CPROVER_ensures(_master_pointer == 0 ==> (ghost_exit == 1001 && (ghost_msg & 4) != 0)) \\
  __CPROVER_ensures(_master_pointer != 0 ==> (ghost_exit == 0 && ghost_msg == __CPROVER_old(ghost_msg)))
#define GHOST_THROW(c) (ghost_throw = 1000 + (c))
#define GHOST_PROCESS_EXIT(c) (ghost_process_exit = 1000 + (c))
#define CONTRACT_masa_exit_exc \\
  __CPROVER_requires(-1000000 < ex && ex < 1000000) __CPROVER_assigns(ghost_msg, ghost_throw) __CPROVER_ensures(ghost_throw == 1000 + ex)
#define CONTRACT_masa_exit_noexc \\
  __CPROVER_requires(-1000000 < ex && ex < 1000000) __CPROVER_assigns(ghost_msg, ghost_process_exit) __CPROVER_ensures(ghost_process_exit == 1000 + ex)
'''


def build(groups, base, only=None):
    """-> (jobs [(key, cname, entry, harness_file, meta)], not_under, info)"""
    os.makedirs(base, exist_ok=True)
    calls = xapi.Calls()
    core_src = open(os.path.join(SRC, 'masa_core.cpp')).read()
    units = []       # (cname, ret, sig, body, contract, sha, group, display)
    not_under = []
    info = {}
    helpers_text, hinfo = xapi.extract_master_helpers(core_src)
    info['helpers'] = hinfo
    fwd = xapi.extract_core(core_src, calls)
    info['forwarders_found'] = len(fwd)
    if 'forwarders' in groups or 'grad_forwarders' in groups:
        for f in fwd:
            if 'forwarders' not in groups and not f.name.startswith('masa_eval_grad_'):
                continue
            c = forwarder_contract(f, calls)
            if c is None:
                not_under.append((f.cname, 'no naming-convention entry'))
                continue
            units.append((f.cname, f.ret, xapi.sig(f), f.body_c, c, f.sha, 'forwarder', 'MASA::%s(%s)' % (f.name, f.codes)))
    if 'stubs' in groups:
        stubs = xapi.extract_stubs(open(os.path.join(SRC, 'masa_internal.h')).read())
        info['stubs_found'] = len(stubs)
        for f in stubs:
            units.append((f.cname, 'Sc', xapi.sig(f), f.body_c, STUB_CONTRACT, f.sha, 'stub', 'manufactured_solution::%s(%s)' % (f.name, f.codes)))
    if 'cwrappers' in groups:
        cw, skipped = xapi.extract_cwrappers(open(os.path.join(SRC, 'cmasa.cpp')).read(), calls)
        info['cwrappers_found'] = len(cw)
        for n, why in skipped:
            not_under.append(('c__' + n, why))
        for f in cw:
            units.append((f.cname, f.ret, xapi.sig(f), f.body_c, cwrapper_contract(f, calls), f.sha, 'cwrapper', 'extern "C" %s' % f.name))
    o = ['/* API unit -- extracted mechanically by vf/xapi.py; DO NOT EDIT */', '#include "api.h"',
         'vhandle __CPROVER_uninterpreted_str_of(vhandle);', '#define STR_OF(p) __CPROVER_uninterpreted_str_of(p)',
         '/* local std::vector<double> of a C wrapper: content as seen after the C++ call filled it (ghost array, arbitrary) */',
         '#define VEC_CAP 64', '#define VEC_LOCAL 1', 'Sc ghost_vec[VEC_CAP + 1]; int ghost_vec_size; int ghost_k;',
         '#define VEC_SIZE(h) ghost_vec_size', '#define VEC_AT(h, i) ghost_vec[i]',
         'vhandle __CPROVER_uninterpreted_vec_from(vhandle, int);', '#define VEC_FROM(a, n) __CPROVER_uninterpreted_vec_from(a, n)',
         '/* a static std::vector<double>: its length on entry is arbitrary (left by an earlier call); copying n elements into it gives the vector value (a, n) only when its length is n */',
         'int SVEC_LEN; vhandle __CPROVER_uninterpreted_vec_other(int, vhandle, int);', '#define VEC_STATIC (__CPROVER_assume(SVEC_LEN >= 0), 2)',
         '#define VEC_COPYIN(len, a, n) (__CPROVER_assert((n) <= (len), "std::copy stays inside the destination vector"), (len) == (n) ? VEC_FROM(a, n) : __CPROVER_uninterpreted_vec_other(len, a, n))',
         'vhandle ghost_bufdst, ghost_bufsrc; int ghost_bufn;', 'int __CPROVER_uninterpreted_strlen(vhandle);', '#define STRLEN(s) __CPROVER_uninterpreted_strlen(s)',
         '/* strcpy copies strlen+1 bytes (terminator included); strncpy copies exactly n bytes */',
         '#define BUF_COPY(dst, src) (ghost_bufdst = (dst), ghost_bufsrc = (src), ghost_bufn = STRLEN(src) + 1)',
         '#define BUF_COPYN(dst, src, n) (ghost_bufdst = (dst), ghost_bufsrc = (src), ghost_bufn = (n))',
         '#define LOOP_c__masa_get_array_1 __CPROVER_assigns(i, __CPROVER_object_whole(array)) \\',
         '  __CPROVER_loop_invariant(0 <= i && i <= ghost_vec_size) \\',
         '  __CPROVER_loop_invariant((0 <= ghost_k && ghost_k < i) ==> SAME(array[ghost_k], ghost_vec[ghost_k])) \\',
         '  __CPROVER_decreases(ghost_vec_size - i)']
    o += calls.defs
    o.append(HELPER_CONTRACTS)
    o.append(helpers_text)
    for cname, ret, sg, body, contract, sha, grp, disp in units:
        o.append('#define CONTRACT_%s \\\n  %s' % (cname, contract))
        o.append('/* %s  sha256(source body)=%s */\n%s %s(%s)\nCONTRACT_%s\n{%s}\n' % (disp, sha, ret, cname, sg, cname, body))
    open(os.path.join(base, 'api_unit.c'), 'w').write('\n'.join(o) + '\n')
    jobs = []
    allu = list(units)
    if 'helpers' in groups:
        allu += [('MasterMS__verify_pointer_sanity', 'void', 'void', '', '', hinfo['verify_pointer_sanity'], 'helper', 'MasterMS::verify_pointer_sanity'),
                 ('MasterMS__get_ms', 'vobj', 'void', '', '', hinfo['get_ms'], 'helper', 'MasterMS::get_ms'),
                 ('masa_exit_exc', 'void', 'int ex', '', '', hinfo['masa_exit'], 'helper', 'MASA::masa_exit [MASA_EXCEPTIONS]'),
                 ('masa_exit_noexc', 'void', 'int ex', '', '', hinfo['masa_exit'], 'helper', 'MASA::masa_exit [exit()]')]
    for cname, ret, sg, body, contract, sha, grp, disp in allu:
        if only and not re.search(only, cname):
            continue
        decls, args = [], []
        if sg != 'void':
            for p in sg.split(', '):
                t, n = p.rsplit(' ', 1)
                if t == 'int *':
                    decls.append('int v_%s; int *%s = &v_%s;' % (n, n, n))
                elif t == 'Sc *':
                    decls.append('Sc v_%s[VEC_CAP]; Sc *%s = v_%s;' % (n, n, n))
                else:
                    decls.append('%s %s;' % (t, n))
                args.append(n)
        hf = os.path.join(base, 'h_%s.c' % cname)
        open(hf, 'w').write('#include "api_unit.c"\nvoid h_%s(void)\n{ %s\n  %s(%s);\n  __CPROVER_assert(0, "canary");\n}\n' % (
            cname, ' '.join(decls), cname, ', '.join(args)))
        jobs.append((cname, hf, {'group': grp, 'display': disp, 'sha': sha}))
    return jobs, not_under, info


def run_jobs(jobs, base, tier):
    tmo = 120 if tier == 'quick' else 600

    def work(j):
        cname, hf, meta = j
        return j, cbmc_job(base, cname, hf, 'h_' + cname, enforce=cname, smt=False, timeout=tmo, canary_timeout=60,
                           loop_contracts=(cname == 'c__masa_get_array'))

    with ThreadPoolExecutor(max_workers=NCPU) as ex:
        return list(ex.map(work, jobs))


STUB_REPLAY = r'''
#include <masa_internal.h>
#include <cstdio>
#include <cstdlib>
#include <sstream>
#include <iostream>
namespace MASA { void masa_exit(int c) { std::printf("masa_exit(%%d)\n", c); std::exit(c); } }
static double cb(double a) { return a; }
int main() {
  MASA::masa_uninit<double> o;
  std::stringstream cap; std::streambuf *old = std::cout.rdbuf(cap.rdbuf());
  double r = o.%(name)s(%(args)s);
  std::cout.rdbuf(old);
  std::string t = cap.str();
  std::printf("REAL %%.17g %%d\n", r, (int)(t.find("MASA ERROR") != std::string::npos));
  return 0; }
'''


def replay_stub(name, codes, wd):
    """call the real base-class stub through masa_uninit<double> (a class that overrides nothing)"""
    os.makedirs(wd, exist_ok=True)
    args = ', '.join({'s': '1.25', 'i': '1', 'h': 'cb'}[c] for c in codes if c in 'sih')
    open(os.path.join(wd, 'r.cpp'), 'w').write(STUB_REPLAY % {'name': name, 'args': args})
    rc, out, s, to = run(['g++', '-O0', '-w', '-I', SRC, '-I', REPO, '-DHAVE_CONFIG_H', 'r.cpp', os.path.join(SRC, 'masa_class.cpp'), '-o', 'r'],
                         cwd=wd, timeout=600)
    if rc != 0:
        return None, 'replay build failed: ' + out[-1500:]
    rc, out, s, to = run([os.path.join(wd, 'r')], cwd=wd, timeout=30)
    m = re.search(r'^REAL (\S+) (\d)$', out, re.M)
    if not m:
        return None, out[-500:]
    return (float(m.group(1)), int(m.group(2))), out


def account(rep, results, base):
    """fold API-job results into a Report; -> (n_obligations_discharged, per_function, samples)"""
    n_dis = 0
    per_fn, samples = [], []
    for (cname, hf, meta), r in results:
        per_fn.append({'function': cname, 'source': meta['display'], 'group': meta['group'], 'status': r.status, 'backend': r.backend,
                       'seconds': round(r.seconds, 2), 'canary': r.canary, 'obligations': len(r.obligations), 'source_sha256': meta['sha']})
        if r.status == 'discharged' and r.canary == 'reachable':
            n_dis += len(r.obligations)
            if len(samples) < 8 and (len(samples) < 2 or meta['group'] not in [s_['group'] for s_ in samples]):
                samples.append({'function': cname, 'group': meta['group'], 'obligations': [o[0] for o in r.obligations][:8]})
            continue
        key = cname + '.contract'
        payload = {'function': cname, 'source_function': meta['display'], 'status': r.status, 'failed_obligations': r.failed,
                   'detail': r.detail, 'verifier_output': r.log[-8000:], 'checker_cmd': r.cmd}
        if r.status == 'refuted':
            if meta['group'] == 'stub':
                m = re.match(r'^stub__(\w+?)_([sihv]+)$', cname)
                real, rlog = replay_stub(m.group(1), m.group(2), os.path.join(base, 'replay_' + cname))
                payload['stub_replay'] = {'method': m.group(1), 'codes': m.group(2), 'real': real, 'log': rlog[-500:]}
                if real is not None and (real[0] != -1.33 or real[1] != 1):
                    rep.violation(key, payload)
                    continue
            rep.violation(key, payload, no_input=True)
        else:
            rep.undecide('%s: %s (%s) canary=%s' % (cname, r.status, r.detail, r.canary))
    return n_dis, per_fn, samples


def finish(prop, results, not_under, info, tier, seed, t0, base, explanation, extra_trusted=(), level='proof', extra_cov=None):
    rep = Report(prop)
    n_dis, per_fn, samples = account(rep, results, base)
    cov = {'obligations': n_dis + len(rep.violations) + len(rep.undecided), 'discharged': n_dis,   # obligations that fail as recorded known findings are counted under known_finding_obligations only
          
           'checker_cmd': results[0][1].cmd if results else 'n/a', 'trusted_base': TRUSTED_API + list(extra_trusted),
           'functions_under_contract': [j[0] for j, r in results], 'functions_not_under_contract': ['%s: %s' % x for x in not_under],
           'per_function': per_fn, 'extraction': info, 'solver_seconds_total': round(sum(r.seconds for j, r in results), 1),
           'known_finding_obligations': len(rep.known_hits), 'bounded': [],
           'samples': samples or [{'note': 'nothing discharged'}], 'explanation': explanation}
    if extra_cov:
        cov.update(extra_cov)
    write_evidence(prop, tier, seed, level, cov, TRUSTED_API + list(extra_trusted), time.time() - t0, len(rep.violations))
    print('%s: %d functions under contract, %d obligations, %d discharged, %d violations, %d undecided, %d known findings (%.1fs)' % (
        prop, len(results), cov['obligations'], n_dis, len(rep.violations), len(rep.undecided), len(rep.known_hits), time.time() - t0))
    return rep.finish()


def replay_generic(path):
    p = json.load(open(path))
    sr = p.get('stub_replay')
    if sr:
        real, log = replay_stub(sr['method'], sr['codes'], scratch('stubreplay'))
        print('stub %s(%s): real=%s (expected (-1.33, 1))' % (sr['method'], sr['codes'], real))
        if real is None:
            print(log)
            return EXIT_UNDECIDED
        if real[0] != -1.33 or real[1] != 1:
            print('VIOLATION property=%s replay=%s' % (p['property'], path))
            return EXIT_VIOLATION
        return EXIT_OK
    print('replay file carries no concrete input (no-failing-input-found); failed obligation(s): %s of %s' % (p.get('failed_obligations'), p.get('function')))
    print((p.get('verifier_output') or '')[-3000:])
    return EXIT_VIOLATION
