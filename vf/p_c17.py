"""C17 C interface: every extern "C" wrapper calls exactly the C++ <double> template named by the convention with the
same arguments and returns its value (status wrappers: the callee's status)."""
import os, time
import apicheck
from common import scratch

def run(tier, seed):
    t0 = time.time()
    base = scratch('c17')
    jobs, not_under, info = apicheck.build({'cwrappers'}, base, only=os.environ.get('VF_ONLY'))
    unexpected = [x for x in not_under if x[0] != 'c__masa_test_default']
    if unexpected and not os.environ.get('VF_ONLY'):
        from common import Report, write_evidence
        rep = Report('C17')
        for n, why in unexpected:
            rep.undecide('extraction break: extern "C" %s left the rule table (%s): it can no longer be checked' % (n[3:], why))
        write_evidence('C17', tier, seed, 'proof', {'evaluations': 0, 'distinct_nontrivial': 0, 'explanation': 'extraction break'}, apicheck.TRUSTED_API, time.time() - t0, 0)
        return rep.finish()
    results = apicheck.run_jobs(jobs, base, tier)
    return apicheck.finish('C17', results, not_under, info, tier, seed, t0, base,
        'each wrapper body extracted from cmasa.cpp; the template it calls is an uninterpreted function + ghost call record; '
        'contract generated from the wrapper name: masa_eval_<n>d_<kind>_<var> -> masa_eval_<kind>_<var><double> with the same '
        'arguments, other wrappers -> the like-named template; double results bit-identical (up to NaN payload), '
        'masa_init_param/masa_sanity_check/masa_get_array must return the callee status')

replay = apicheck.replay_generic
