"""C16 fatal-error discipline: verify_pointer_sanity / get_ms / masa_exit contracts, every API forwarder signals the fatal
exit (code 1 + MASA FATAL ERROR) instead of dereferencing a null selection and never touches the registry, select_mms /
init_mms fatal branches leave the registry exactly as it was, sanity_check never reaches its fatal branch on a
well-formed store."""
import os, time, json
import apicheck, regcheck, p_c11
from common import *

def run(tier, seed):
    t0 = time.time()
    rep = Report('C16')
    d = scratch('c16')
    only = os.environ.get('VF_ONLY')
    # API layer
    abase = os.path.join(d, 'api')
    ajobs, anot, ainfo = apicheck.build({'helpers', 'forwarders'}, abase, only=only)
    ares = apicheck.run_jobs(ajobs, abase, tier)
    a_dis, a_per, a_samples = apicheck.account(rep, ares, abase)
    # registry fatal branches
    rjobs, rnot, rinfo, cat = regcheck.jobs_for(d, only, names={'reg__select_mms', 'reg__init_mms', 'reg__list_mms', 'reg_witness'} if not only else None)
    rres = regcheck.run_jobs(d, rjobs, tier)
    r_dis, r_per, r_samples = regcheck.account(rep, rres, rinfo)
    # store: sanity_check's fatal branch
    sd = os.path.join(d, 'store')
    os.makedirs(sd, exist_ok=True)
    sjobs, snot, sinfo = p_c11.store_jobs(sd, tier, only or 'sanity_check')
    sres = p_c11.run_store_jobs(sd, sjobs, tier)
    s_dis = 0
    s_per = []
    for (cname, hf, repl, loops), r in sres:
        s_per.append({'function': cname, 'status': r.status, 'backend': r.backend, 'seconds': round(r.seconds, 2), 'canary': r.canary, 'obligations': len(r.obligations)})
        if r.status == 'discharged' and r.canary == 'reachable':
            s_dis += len(r.obligations)
        elif r.status == 'refuted':
            rep.violation(cname + '.contract', {'function': cname, 'failed_obligations': r.failed, 'verifier_output': r.log[-6000:]}, no_input=True)
        else:
            rep.undecide('%s: %s (%s)' % (cname, r.status, r.detail))
    n_dis = a_dis + r_dis + s_dis
    trusted = apicheck.TRUSTED_API + regcheck.TRUSTED_REG
    cov = {'obligations': n_dis + len(rep.violations) + len(rep.undecided), 'discharged': n_dis,   # obligations that fail as recorded known findings are counted under known_finding_obligations only
          
           'checker_cmd': ares[0][1].cmd if ares else 'n/a', 'trusted_base': trusted,
           'functions_under_contract': [j[0] for j, r in ares] + [j[0] for j, r in rres] + [j[0] for j, r in sres],
           'functions_not_under_contract': ['%s: %s' % x for x in anot] + rnot + snot, 'per_function': a_per + r_per + s_per, 'bounded': [],
           'samples': (a_samples[:2] + r_samples[:2]) or [{'note': 'nothing discharged'}],
           'explanation': 'masa_exit: passes its argument to exit()/throw (both settings of MASA_EXCEPTIONS extracted); verify_pointer_sanity: null selection -> FATAL + masa_exit(1), '
                          'else no effect; every API template: null selection -> that fatal event, selection and registry untouched (frame); select_mms unknown handle / init_mms unknown '
                          'name: FATAL + masa_exit(1) with map, selection and allocation count equal to the entry state (what a catch handler sees); sanity_check: fatal branch unreachable '
                          'on a well-formed store.  Process termination / C++ throw themselves are language semantics (ghost events here).'}
    write_evidence('C16', tier, seed, 'proof', cov, trusted, time.time() - t0, len(rep.violations))
    print('C16: %d functions under contract, %d obligations discharged, %d violations, %d undecided (%.1fs)' % (
        len(ares) + len(rres) + len(sres), n_dis, len(rep.violations), len(rep.undecided), time.time() - t0))
    return rep.finish()

def replay(path):
    return apicheck.replay_generic(path)
