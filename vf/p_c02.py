"""C02 Euler family: units and runner"""
from numeric import Unit, run_numeric, replay_file

SEL = r'^eval_(q|exact)_'


def units():
    us = [Unit('euler_1d', 'euler.cpp', 'euler.spec.h', defines=['UNIT_euler_1d 1'], select=SEL),
          Unit('euler_2d', 'euler.cpp', 'euler.spec.h', defines=['UNIT_euler_2d 1'], select=SEL),
          Unit('euler_3d', 'euler.cpp', 'euler.spec.h', defines=['UNIT_euler_3d 1'], select=SEL),
          Unit('euler_transient_1d', 'euler_transient.cpp', 'euler_transient.spec.h', defines=['UNIT_euler_transient_1d 1'], select=SEL),
          Unit('euler_transient_2d', 'euler_transient_2d.cpp', 'euler_transient.spec.h', defines=['UNIT_euler_transient_2d 1'], select=SEL),
          Unit('euler_transient_3d', 'euler_transient_3d.cpp', 'euler_transient.spec.h', defines=['UNIT_euler_transient_3d 1'], select=SEL),
          # C++ class axi_euler registers itself as "axisymmetric_euler"
          Unit('axi_euler', 'axi_euler.cpp', 'euler_axi.spec.h', defines=['UNIT_axi_euler 1'], select=SEL),
          Unit('axi_euler_transient', 'axi_euler_transient.cpp', 'euler_axi.spec.h', defines=['UNIT_axi_euler_transient 1'], select=SEL)]
    return us


def run(tier, seed):
    return run_numeric('C02', units(), tier, seed, design_ref='4/C02', lemmas=['lemma_energy_forms', 'lemma_cyl_div'])


replay = replay_file
