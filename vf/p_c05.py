"""C05 Spalart-Allmaras solutions: units and runner"""
import os
import xtract
from common import SRC
from numeric import Unit, run_numeric, replay_file

# Functions the property covers that are NOT discharged deductively.  Their (un-weakened) contracts are in contracts/sa_bounded.h:
# attached to the functions (so callers can be checked against them with --replace-call-with-contract) but never enforced
# or counted by numeric.py, which only reads the CONTRACT_ macros of the main spec file.  (C name, reason).
# The lead wires the bounded stand-in (DESIGN 3.4) for these.
WB = 'fans_sa_steady_wall_bounded__'
FS = 'fans_sa_transient_free_shear__'
_WB_SRC = ('the spec (generic jets of the documented fields) agrees with the code on 19.5k admissible native samples to 1e-17, but the identity '
           'needs, inside one large formula: d/dx sqrt(c (k x)^(-1/7)) = -(1/14x) (..) [power law + inverse scaling], y inv(y) = 1, '
           '(u_inf/A)(A/u_inf) = 1, f_v1\' = 3 f_v1 (1-f_v1)/chi with chi = rho nu/mu, inv(rho nu) = inv(rho) inv(nu); cvc5/z3/z3-new time out (150 s) '
           'even in the hand-rendered monomial form (-DWB_RENDERED)')
BOUNDED = [
    ('rans_sa__dvt_1', 'd/d eta[nu*fv1(chi)] vs the code form n^3(n^3+4a^3)nu\'/(n^3+a^3)^2, a=cv1/re_tau: needs the inverse-scaling '
                       'identity inv(re^3 q) = inv(re)^3 inv(q) under a differentiation; cvc5/z3/z3-new time out at 300 s (also with nu atomic). '
                       'Its contract is used (replace) by eval_q_u.'),
    (FS + 'eval_q_nu_3', 'production term: spec |Omega| = sqrt(Omega^2), code pi*sqrt(w^2/L^2): needs sqrt(pi^2 a) = pi sqrt(a), pi > 0; the lemma alone '
                         '(z3 0.1 s) and the rest of the identity (z3 seconds, with the sqrt factored as in the code) are provable, together not in 200 s. '
                         'No native counterexample in 20000 samples.'),
    (WB + 'update_2', 'CBMC 6.11 invariant violation on the extracted body (D2vDxy = -15/14*V/x/y with V = ...*1/14: negative non-integer rational '
                      'constant folded in a product); besides, Omega needs sqrt(c^2 a) = c sqrt(a) and the derivative members the identities below. '
                      'All 46 cached members agree with the contract on 19.5k admissible native samples.'),
    (WB + 'eval_q_rho_2', _WB_SRC + '. With -DWB_RENDERED and update replaced by its contract the postcondition alone IS proved by z3 4.8 (<120 s), '
                          'but not in the framework\'s all-properties query and the vacuity guard cannot be decided (see eval_exact_*).'),
    (WB + 'eval_q_rho_u_2', _WB_SRC),
    (WB + 'eval_q_rho_v_2', _WB_SRC),
    (WB + 'eval_q_rho_e_2', _WB_SRC),
    (WB + 'eval_q_nu_2', _WB_SRC + '; additionally sqrt(c^2 a) = c sqrt(a) for Omega'),
] + [(WB + 'eval_exact_%s_2' % v,
      'value-level identity against update\'s contract; proved by z3 (40-50 s, eval_exact_rho in-framework) but the vacuity canary is undecided: the '
      'solvers return no model in 30 s and the uniform [-2,2] native sampler never meets the 17 sign conditions of the admissible region; '
      'dropping the precondition would let NaN inputs reach the native twin') for v in ('u', 'v', 't', 'rho', 'nu')]


def _calls(cls, src):
    """cname -> member functions it calls (every such call is replaced by the callee's contract: modular proof)"""
    decl, funcs = xtract.extract_class(os.path.join(SRC, src), os.path.join(SRC, 'masa_internal.h'), cls)
    return {f.cname: sorted(set(f.calls)) for f in funcs if f.calls}


def units():
    us = []
    rep = _calls('rans_sa', 'rans_sa.cpp')
    # s() calls du() five times: five replaced calls defeat the solvers, the one-line body of du inlines fine
    rep['rans_sa__s_1'] = [c for c in rep['rans_sa__s_1'] if c != 'rans_sa__du_1']
    us.append(Unit('rans_sa', 'rans_sa.cpp', 'sa.spec.h', defines=['UNIT_rans_sa 1'], replace=rep))
    # the two-argument wrappers are checked against the extracted three-argument bodies themselves (no replacement)
    us.append(Unit('fans_sa_transient_free_shear', 'fans_sa.cpp', 'sa.spec.h', defines=['UNIT_fans_sa_transient_free_shear 1']))
    wb = 'fans_sa_steady_wall_bounded'
    wrep = _calls(wb, 'fans_sa.cpp')      # every evaluator calls update(x,y) first: replaced by update's contract
    us.append(Unit(wb, 'fans_sa.cpp', 'sa.spec.h', defines=['UNIT_fans_sa_steady_wall_bounded 1'], replace=wrep, timeout=240,
                   sample='defaults', arg_box={'x': (0.05, 3.0), 'y': (1e-4, 0.2)}))
    return us


def run(tier, seed):
    return run_numeric('C05', units(), tier, seed, design_ref='4/C05', bounded=BOUNDED)

replay = replay_file
