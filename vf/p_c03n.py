"""C03n -- the power-law solution navierstokes_4d_compressible_powerlaw (src/nsctpl_fwd.hpp, nsctpl.hpp, masa_internal.h) under
contract, modular as the code is (DESIGN 4/C03, 4/C07; contracts/nsctpl.spec.h; extractor vf/xnsctpl.py):

  unit primitive               11 member functions of nsctpl::primitive == components of the jet of the 7-term cosine field
  unit manufactured_solution   e,p,mu,rho*,grad_*,Q_* over UNINTERPRETED primitive values (callee contract, not body): Navier-Stokes
                               residual with the power-law viscosity; grad_* incl. the NaN sentinel for a bad direction index
  unit navierstokes_4d_...     inline forwarders eval_exact_* / eval_q_* / eval_g_* == what their name designates (callee replaced by contract)

units(part): 'all' (default) | 'c03' (everything except gradients) | 'c07' (gradient chain only: primitive _x,_y,_z and value,
grad_*, eval_g_*, eval_exact_*) -- so that the lead can merge the parts into C03 / C07."""
import xnsctpl
from numeric import Unit, run_numeric, replay_file

SPEC = 'nsctpl.spec.h'
GRAD_SELECT = {'primitive': r'^(operator\(\)|_[xyz])$', 'manufactured_solution': r'^(grad_\w+|p|e|mu)$',
               'navierstokes_4d_compressible_powerlaw': r'^eval_(g|exact)_'}
C03_SELECT = {'primitive': None, 'manufactured_solution': r'^(?!grad_)', 'navierstokes_4d_compressible_powerlaw': r'^eval_(q|exact)_'}


def units(part='all'):
    us = [Unit(xnsctpl.PRIM_CLS, 'nsctpl.cpp', SPEC, extractor=xnsctpl.unit_primitive, replay_target=xnsctpl.replay_target),
          Unit(xnsctpl.MS_CLS, 'nsctpl.cpp', SPEC, extractor=xnsctpl.unit_ms, replay_target=xnsctpl.replay_target),
          Unit(xnsctpl.WRAP_CLS, 'nsctpl.cpp', SPEC, extractor=xnsctpl.unit_wrapper, replay_target=xnsctpl.replay_target, select=r'^eval_')]
    if part != 'all':
        sel = GRAD_SELECT if part == 'c07' else C03_SELECT
        for u in us:
            u.select = sel[u.cls]
    return us


EXPLANATION = ('power-law solution, modular: (1) each nsctpl::primitive member == jet component of the 7-term cosine field for all 39 parameters '
               '(one proof serves the five instances); (2) nsctpl::manufactured_solution e,p,mu,rho*,grad_*,Q_* with the primitive calls as '
               'uninterpreted functions: Q_* == compressible Navier-Stokes residual with mu = mu_r (T/T_r)^beta, lambda = lambda_r mu/mu_r, '
               'kappa = kappa_r mu/mu_r over abstract jets; grad_*(i): component i-1 for i in 1..3, NaN sentinel (ghost flag) otherwise; '
               '(3) each inline forwarder of navierstokes_4d_compressible_powerlaw == the quantity its name designates, callee replaced by its contract')
TRUSTED = ['extractor rule N of vf/xnsctpl.py: primitive instances seen from manufactured_solution are uninterpreted functions of (x,y,z,t) '
           '(justified by unit primitive, proven for all parameters); *Lx == the owner\'s Lx; member templates instantiated with T1..T4 = Scalar; '
           'IndexBase read from masa_internal.h; signaling_NaN() == ghost flag + placeholder',
           'power rule for the symbolic exponent (contracts/nsctpl.spec.h, P): d/dT pow(T/T_r, beta) = beta pow(T/T_r, beta-1)/T_r',
           'spatial arguments of the documented cosine form are scaled by 2 pi/L (contracts/nsctpl.spec.h, S); twopi is a free real in the proof']


def run(tier, seed):
    return run_numeric('C03n', units(), tier, seed, design_ref='4/C03', trusted_extra=TRUSTED, explanation=EXPLANATION)


replay = replay_file
