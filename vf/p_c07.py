"""C07 gradient API: eval_g_* of euler_1d/2d/3d and navierstokes_2d/3d_compressible equal the first-derivative components
of the SAME field jets the eval_exact_* contracts use (index switch incl. out-of-range -> -1, prints only), and every
masa_eval_grad_* API template forwards to the eval_g_* method of the same variable and arity on the selected object."""
import p_c02, p_c03
from numeric import run_numeric, replay_file
import apicheck, json

def units():
    eu = [u for u in p_c02.units() if u.cls in ('euler_1d', 'euler_2d', 'euler_3d')]
    for u in eu:
        u.select = r'^eval_g_'
    ns = p_c03.units(select=r'^eval_g_', classes=p_c03.CLASSES[:2])
    import p_c03n
    return eu + ns + p_c03n.units('c07')

def run(tier, seed):
    return run_numeric('C07', units(), tier, seed, design_ref='4/C07', api_groups=['grad_forwarders'],
                       explanation='eval_g_* bodies extracted from euler.cpp / cns.cpp: ensures ret == (i==1 ? PHI_x : i==2 ? PHI_y : i==3 ? PHI_z : -1) '
                                   'for the jet PHI of the exact field, int i over its full range, frame = message flag only; '
                                   'masa_eval_grad_* forwarders (masa_core.cpp): exactly one call to eval_g_<same variable>(same args) on the selected object. '
                                   'Power-law solution: primitive _x/_y/_z == jet components, grad_*(i) == component i (IndexBase 1) or the NaN sentinel, eval_g_* forwarders == grad_* of the named field.')

def replay(path):
    p = json.load(open(path))
    if 'native_search' in p:
        return replay_file(path)
    return apicheck.replay_generic(path)
