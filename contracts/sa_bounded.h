/* sa_bounded.h -- contracts of the C05 functions that are NOT discharged deductively (listed in vf/p_c05.py BOUNDED).
 * They live in this separate file on purpose: vf/numeric.py only enforces (and only counts) the CONTRACT_ macros of the
 * main spec file, so a contract here is attached to the function for `--replace-call-with-contract` in the callers'
 * modular proofs but is never itself claimed as discharged.  Each is the un-weakened contract the property demands;
 * its validation is the bounded stand-in (native twin, DESIGN 3.4). */
#if defined(UNIT_rans_sa)
/* dvt == d/d eta [ NU * fv1(CHI) ]: needs inv(re_tau^3 q) = inv(re_tau)^3 inv(q) under a differentiation (the code works with
 * a = cv1/re_tau, the definition with chi = nu re_tau): cvc5, z3 4.8, z3 5.1 all time out at 300 s, also with atomic nu. */
#define CONTRACT_rans_sa__dvt_1          REQ(1) ENS_EQ(rs_dvt(eta)) FRAME()
#endif

#if defined(UNIT_fans_sa_transient_free_shear)
/* eval_q_nu(x,y,t): production term c_b1 |Omega| rho nu with |Omega| = sqrt(Omega^2); the code has pi*sqrt(w^2/L^2): needs sqrt(pi^2 a) = pi sqrt(a)
 * (z3 proves that lemma alone in 0.1 s and the rest of the identity in seconds, but not together in 200 s). */
#define CONTRACT_fans_sa_transient_free_shear__eval_q_nu_3      REQ(VF_PI_OK && PI > 0) ENS_EQ(fs_q_nu(x, y, t)) FRAME()
#endif

#if defined(UNIT_fans_sa_steady_wall_bounded)
/* update(x,y): the full contract "every cached member == its defining expression" incl. the derivative members == jet components.
 * Not dischargeable: (1) CBMC 6.11 crashes on the extracted body (statement D2vDxy = -15/14 V/x/y: negative non-integer constant folded
 * with the 1/14 inside V; simplifier invariant std_expr.cpp:134); (2) Omega needs sqrt(c^2 a) = c sqrt(a); (3) the derivative members
 * need the power laws / inverse-scaling identities listed in p_c05.py.  Attached here so that the evaluators are checked against it. */
#define CONTRACT_fans_sa_steady_wall_bounded__update_2         WB_UPDATE_CONTRACT
#define CONTRACT_fans_sa_steady_wall_bounded__eval_exact_u_2   WB_REQ ENS_EQ(wb_exact_u(x, y)) FRAME(WB_CACHE)
#define CONTRACT_fans_sa_steady_wall_bounded__eval_exact_v_2   WB_REQ ENS_EQ(wb_exact_v(x, y)) FRAME(WB_CACHE)
#define CONTRACT_fans_sa_steady_wall_bounded__eval_exact_t_2   WB_REQ ENS_EQ(wb_exact_t(x, y)) FRAME(WB_CACHE)
#define CONTRACT_fans_sa_steady_wall_bounded__eval_exact_rho_2 WB_REQ ENS_EQ(wb_exact_rho(x, y)) FRAME(WB_CACHE)
#define CONTRACT_fans_sa_steady_wall_bounded__eval_exact_nu_2  WB_REQ ENS_EQ(wb_exact_nu(x, y)) FRAME(WB_CACHE)
#define CONTRACT_fans_sa_steady_wall_bounded__eval_q_rho_2     WB_REQ ENS_EQ(wb_q_rho(x, y)) FRAME(WB_CACHE)
#define CONTRACT_fans_sa_steady_wall_bounded__eval_q_rho_u_2   WB_REQ ENS_EQ(wb_q_rho_u(x, y)) FRAME(WB_CACHE)
#define CONTRACT_fans_sa_steady_wall_bounded__eval_q_rho_v_2   WB_REQ ENS_EQ(wb_q_rho_v(x, y)) FRAME(WB_CACHE)
#define CONTRACT_fans_sa_steady_wall_bounded__eval_q_rho_e_2   WB_REQ ENS_EQ(wb_q_rho_e(x, y)) FRAME(WB_CACHE)
#define CONTRACT_fans_sa_steady_wall_bounded__eval_q_nu_2      WB_REQ ENS_EQ(wb_q_nu(x, y)) FRAME(WB_CACHE)
#endif
