/* strings.spec.h -- contracts for masa_map.cpp (property C13): lower-casing and deletion of every '-' and every ' '.
 * "Result == input with every c deleted" is carried by three obligations per removal function:
 *   (i)  only the separator is ever erased           (ghost flag unchanged),
 *   (ii) vstr_erase1 keeps all other characters in order (its contract; trusted std::string::replace semantics),
 *   (iii) no separator remains at exit                (postcondition),
 * plus: a character that does not occur before does not occur after (ghost_c, arbitrary), length never grows. */
#define NOCHAR(s, c, v) __CPROVER_forall { int v; (0 <= v && v < (s)->len) ==> (s)->d[v] != (c) }
#define NOCHAR_OLD(s, c, v) __CPROVER_forall { int v; (0 <= v && v < __CPROVER_old((s)->len)) ==> __CPROVER_old((s)->d)[v] != (c) }

#define CONTRACT_uptolow \
  __CPROVER_requires(VSTR_WF(str)) \
  __CPROVER_assigns(__CPROVER_object_upto(str->d, VNMAX)) \
  __CPROVER_ensures(str->len == __CPROVER_old(str->len)) \
  __CPROVER_ensures(__CPROVER_forall { int u1; (0 <= u1 && u1 < str->len) ==> str->d[u1] == (char)VTOLOWER(__CPROVER_old(str->d)[u1]) })
#define LOOP_uptolow_1 \
  __CPROVER_assigns(i, __CPROVER_object_upto(str->d, VNMAX)) \
  __CPROVER_loop_invariant(i <= (unsigned)str->len) \
  __CPROVER_loop_invariant(__CPROVER_forall { int u2; (0 <= u2 && u2 < (int)i) ==> str->d[u2] == (char)VTOLOWER(__CPROVER_loop_entry(str->d)[u2]) }) \
  __CPROVER_loop_invariant(__CPROVER_forall { int u3; ((int)i <= u3 && u3 < str->len) ==> str->d[u3] == __CPROVER_loop_entry(str->d)[u3] }) \
  __CPROVER_decreases((unsigned)str->len - i)

#define REMOVE_CONTRACT(SEP, FLAG, OTHER) \
  __CPROVER_requires(VSTR_WF(str)) \
  __CPROVER_assigns(str->len, __CPROVER_object_whole(str->d), ghost_erased_nondash, ghost_erased_nonspace) \
  __CPROVER_ensures(VSTR_WF(str) && str->len <= __CPROVER_old(str->len)) \
  __CPROVER_ensures(NOCHAR(str, SEP, q1)) \
  __CPROVER_ensures(FLAG == __CPROVER_old(FLAG)) \
  __CPROVER_ensures((NOCHAR_OLD(str, ghost_c, q2)) ==> (NOCHAR(str, ghost_c, q3))) \
  __CPROVER_ensures((NOCHAR_OLD(str, OTHER, q4)) ==> (NOCHAR(str, OTHER, q5)))
#define REMOVE_LOOP(SEP, FLAG, OTHER) \
  __CPROVER_assigns(position, str->len, __CPROVER_object_whole(str->d), ghost_erased_nondash, ghost_erased_nonspace) \
  __CPROVER_loop_invariant(VSTR_WF(str) && str->len <= __CPROVER_loop_entry(str->len)) \
  __CPROVER_loop_invariant(position == VNPOS_INT || (0 <= position && position < str->len && str->d[position] == SEP)) \
  __CPROVER_loop_invariant(__CPROVER_forall { int l1; (0 <= l1 && l1 < str->len && (position == VNPOS_INT || l1 < position)) ==> str->d[l1] != SEP }) \
  __CPROVER_loop_invariant(FLAG == __CPROVER_loop_entry(FLAG)) \
  __CPROVER_loop_invariant((__CPROVER_forall { int l2; (0 <= l2 && l2 < __CPROVER_loop_entry(str->len)) ==> __CPROVER_loop_entry(str->d)[l2] != ghost_c }) \
                           ==> (NOCHAR(str, ghost_c, l3))) \
  __CPROVER_loop_invariant((__CPROVER_forall { int l4; (0 <= l4 && l4 < __CPROVER_loop_entry(str->len)) ==> __CPROVER_loop_entry(str->d)[l4] != OTHER }) \
                           ==> (NOCHAR(str, OTHER, l5))) \
  __CPROVER_decreases(str->len)

#define CONTRACT_remove_line REMOVE_CONTRACT('-', ghost_erased_nondash, ' ')
#define LOOP_remove_line_1 REMOVE_LOOP('-', ghost_erased_nondash, ' ')
#define CONTRACT_remove_whitespace REMOVE_CONTRACT(' ', ghost_erased_nonspace, '-')
#define LOOP_remove_whitespace_1 REMOVE_LOOP(' ', ghost_erased_nonspace, '-')

#define CONTRACT_masa_map \
  __CPROVER_requires(VSTR_WF(input_string)) \
  __CPROVER_assigns(input_string->len, __CPROVER_object_whole(input_string->d), ghost_erased_nondash, ghost_erased_nonspace) \
  __CPROVER_ensures(__CPROVER_return_value == 0) \
  __CPROVER_ensures(VSTR_WF(input_string) && input_string->len <= __CPROVER_old(input_string->len)) \
  __CPROVER_ensures(NOCHAR(input_string, '-', m1)) \
  __CPROVER_ensures(NOCHAR(input_string, ' ', m2)) \
  __CPROVER_ensures(('A' <= ghost_c && ghost_c <= 'Z') ==> (NOCHAR(input_string, ghost_c, m3)))
