/* euler.spec.h -- contracts for euler_1d / euler_2d / euler_3d (properties C02, C07).
 * Oracle: the property statement (inviscid conservation laws applied to the documented fields of
 * doxygen/solutions/euler.page, eq. manufactured_1d / _2d / _3d).  The steady classes have no time terms:
 * every field jet has _t == 0, so the d/dt parts of EULER_OPERATORS vanish identically.
 * Gradient evaluators (C07): component i (1-based) of eval_g_phi is the partial derivative of the SAME jet that
 * eval_exact_phi returns; an index outside 1..dim yields -1 and may only touch ghost_msg (printing). */
#include "roy.h"

#if defined(UNIT_euler_1d)
#define EULER1D_FIELDS \
  Sc y = 0, z = 0, t = 0; \
  ROY_X(rx, JSIN, rho_x, a_rhox); JADDC(RHO, rx, rho_0); \
  ROY_X(ux, JSIN, u_x, a_ux);     JADDC(U, ux, u_0); \
  ROY_X(px, JCOS, p_x, a_px);     JADDC(P, px, p_0); \
  JCONST(V, 0); JCONST(W, 0)
static Sc e1_exact_rho(Sc x) { EULER1D_FIELDS; return RHO_v; }
static Sc e1_exact_u(Sc x) { EULER1D_FIELDS; return U_v; }
static Sc e1_exact_p(Sc x) { EULER1D_FIELDS; return P_v; }
static Sc e1_g_rho(Sc x) { EULER1D_FIELDS; return RHO_x; }
static Sc e1_g_u(Sc x) { EULER1D_FIELDS; return U_x; }
static Sc e1_g_p(Sc x) { EULER1D_FIELDS; return P_x; }
static Sc e1_q_rho(Sc x) { EULER1D_FIELDS; EULER_OPERATORS; return op_mass; }
static Sc e1_q_rho_u(Sc x) { EULER1D_FIELDS; EULER_OPERATORS; return op_xmom; }
static Sc e1_q_rho_e(Sc x) { EULER1D_FIELDS; EULER_OPERATORS; return op_energy; }
#define E1REQ REQ(VF_PI_OK)
#define CONTRACT_euler_1d__eval_exact_rho_1 E1REQ ENS_EQ(e1_exact_rho(x)) FRAME()
#define CONTRACT_euler_1d__eval_exact_u_1   E1REQ ENS_EQ(e1_exact_u(x)) FRAME()
#define CONTRACT_euler_1d__eval_exact_p_1   E1REQ ENS_EQ(e1_exact_p(x)) FRAME()
#define CONTRACT_euler_1d__eval_g_rho_1     E1REQ ENS_EQ(e1_g_rho(x)) FRAME()
#define CONTRACT_euler_1d__eval_g_u_1       E1REQ ENS_EQ(e1_g_u(x)) FRAME()
#define CONTRACT_euler_1d__eval_g_p_1       E1REQ ENS_EQ(e1_g_p(x)) FRAME()
#define CONTRACT_euler_1d__eval_q_rho_1     E1REQ ENS_EQ(e1_q_rho(x)) FRAME()
#define CONTRACT_euler_1d__eval_q_rho_u_1   E1REQ ENS_EQ(e1_q_rho_u(x)) FRAME()
#define CONTRACT_euler_1d__eval_q_rho_e_1   E1REQ ENS_EQ(e1_q_rho_e(x)) FRAME()
#endif

/* selection of a gradient component: 1-based direction index, -1 outside 1..dim (C07) */
static Sc grad_sel(int i, int dim, Sc gx, Sc gy, Sc gz)
{
  Sc g = -1;
  if (i == 1 && dim >= 1) g = gx;
  if (i == 2 && dim >= 2) g = gy;
  if (i == 3 && dim >= 3) g = gz;
  return g;
}
#define GRAD2(J, i) grad_sel(i, 2, J##_x, J##_y, J##_z)
#define GRAD3(J, i) grad_sel(i, 3, J##_x, J##_y, J##_z)

#if defined(UNIT_euler_2d)
/* euler.page eq. manufactured_2d:
 *   rho = rho_0 + rho_x sin(a_rhox pi x/L) + rho_y cos(a_rhoy pi y/L)
 *   u   = u_0   + u_x   sin(a_ux   pi x/L) + u_y   cos(a_uy   pi y/L)
 *   v   = v_0   + v_x   cos(a_vx   pi x/L) + v_y   sin(a_vy   pi y/L)
 *   p   = p_0   + p_x   cos(a_px   pi x/L) + p_y   sin(a_py   pi y/L) */
#define EULER2D_FIELDS \
  Sc z = 0, t = 0; \
  ROY_X(rx, JSIN, rho_x, a_rhox); ROY_Y(ry, JCOS, rho_y, a_rhoy); JSUM3(RHO, rho_0, rx, ry); \
  ROY_X(ux, JSIN, u_x, a_ux);     ROY_Y(uy, JCOS, u_y, a_uy);     JSUM3(U, u_0, ux, uy); \
  ROY_X(vx, JCOS, v_x, a_vx);     ROY_Y(vy, JSIN, v_y, a_vy);     JSUM3(V, v_0, vx, vy); \
  ROY_X(px, JCOS, p_x, a_px);     ROY_Y(py, JSIN, p_y, a_py);     JSUM3(P, p_0, px, py); \
  JCONST(W, 0)
static Sc e2_exact_rho(Sc x, Sc y) { EULER2D_FIELDS; return RHO_v; }
static Sc e2_exact_u(Sc x, Sc y) { EULER2D_FIELDS; return U_v; }
static Sc e2_exact_v(Sc x, Sc y) { EULER2D_FIELDS; return V_v; }
static Sc e2_exact_p(Sc x, Sc y) { EULER2D_FIELDS; return P_v; }
static Sc e2_g_rho(Sc x, Sc y, int i) { EULER2D_FIELDS; return GRAD2(RHO, i); }
static Sc e2_g_u(Sc x, Sc y, int i) { EULER2D_FIELDS; return GRAD2(U, i); }
static Sc e2_g_v(Sc x, Sc y, int i) { EULER2D_FIELDS; return GRAD2(V, i); }
static Sc e2_g_p(Sc x, Sc y, int i) { EULER2D_FIELDS; return GRAD2(P, i); }
static Sc e2_q_rho(Sc x, Sc y) { EULER2D_FIELDS; EULER_OPERATORS; return op_mass; }
static Sc e2_q_rho_u(Sc x, Sc y) { EULER2D_FIELDS; EULER_OPERATORS; return op_xmom; }
static Sc e2_q_rho_v(Sc x, Sc y) { EULER2D_FIELDS; EULER_OPERATORS; return op_ymom; }
static Sc e2_q_rho_e(Sc x, Sc y) { EULER2D_FIELDS; EULER_OPERATORS; return op_energy; }
#define E2REQ REQ(VF_PI_OK)
#define CONTRACT_euler_2d__eval_exact_rho_2 E2REQ ENS_EQ(e2_exact_rho(x, y)) FRAME()
#define CONTRACT_euler_2d__eval_exact_u_2   E2REQ ENS_EQ(e2_exact_u(x, y)) FRAME()
#define CONTRACT_euler_2d__eval_exact_v_2   E2REQ ENS_EQ(e2_exact_v(x, y)) FRAME()
#define CONTRACT_euler_2d__eval_exact_p_2   E2REQ ENS_EQ(e2_exact_p(x, y)) FRAME()
#define CONTRACT_euler_2d__eval_g_rho_3     E2REQ ENS_EQ(e2_g_rho(x, y, i)) FRAME(ghost_msg)
#define CONTRACT_euler_2d__eval_g_u_3       E2REQ ENS_EQ(e2_g_u(x, y, i)) FRAME(ghost_msg)
#define CONTRACT_euler_2d__eval_g_v_3       E2REQ ENS_EQ(e2_g_v(x, y, i)) FRAME(ghost_msg)
#define CONTRACT_euler_2d__eval_g_p_3       E2REQ ENS_EQ(e2_g_p(x, y, i)) FRAME(ghost_msg)
#define CONTRACT_euler_2d__eval_q_rho_2     E2REQ ENS_EQ(e2_q_rho(x, y)) FRAME()
#define CONTRACT_euler_2d__eval_q_rho_u_2   E2REQ ENS_EQ(e2_q_rho_u(x, y)) FRAME()
#define CONTRACT_euler_2d__eval_q_rho_v_2   E2REQ ENS_EQ(e2_q_rho_v(x, y)) FRAME()
#define CONTRACT_euler_2d__eval_q_rho_e_2   E2REQ ENS_EQ(e2_q_rho_e(x, y)) FRAME()
#endif

#if defined(UNIT_euler_3d)
/* euler.page eq. manufactured_3d:
 *   rho = rho_0 + rho_x sin(x) + rho_y cos(y) + rho_z sin(z)
 *   u   = u_0   + u_x   sin(x) + u_y   cos(y) + u_z   cos(z)
 *   v   = v_0   + v_x   cos(x) + v_y   sin(y) + v_z   sin(z)
 *   w   = w_0   + w_x   sin(x) + w_y   sin(y) + w_z   cos(z)
 *   p   = p_0   + p_x   cos(x) + p_y   sin(y) + p_z   cos(z)      (argument of each: a_phi? pi ?/L) */
#define E3_RHO ROY_X(rx, JSIN, rho_x, a_rhox); ROY_Y(ry, JCOS, rho_y, a_rhoy); ROY_Z(rz, JSIN, rho_z, a_rhoz); JSUM4(RHO, rho_0, rx, ry, rz)
#define E3_U   ROY_X(ux, JSIN, u_x, a_ux);     ROY_Y(uy, JCOS, u_y, a_uy);     ROY_Z(uz, JCOS, u_z, a_uz);     JSUM4(U, u_0, ux, uy, uz)
#define E3_V   ROY_X(vx, JCOS, v_x, a_vx);     ROY_Y(vy, JSIN, v_y, a_vy);     ROY_Z(vz, JSIN, v_z, a_vz);     JSUM4(V, v_0, vx, vy, vz)
#define E3_W   ROY_X(wx, JSIN, w_x, a_wx);     ROY_Y(wy, JSIN, w_y, a_wy);     ROY_Z(wz, JCOS, w_z, a_wz);     JSUM4(W, w_0, wx, wy, wz)
#define E3_P   ROY_X(px, JCOS, p_x, a_px);     ROY_Y(py, JSIN, p_y, a_py);     ROY_Z(pz, JCOS, p_z, a_pz);     JSUM4(P, p_0, px, py, pz)
#define EULER3D_FIELDS Sc t = 0; E3_RHO; E3_U; E3_V; E3_W; E3_P
static Sc e3_exact_rho(Sc x, Sc y, Sc z) { Sc t = 0; E3_RHO; return RHO_v; }
static Sc e3_exact_u(Sc x, Sc y, Sc z) { Sc t = 0; E3_U; return U_v; }
static Sc e3_exact_v(Sc x, Sc y, Sc z) { Sc t = 0; E3_V; return V_v; }
static Sc e3_exact_w(Sc x, Sc y, Sc z) { Sc t = 0; E3_W; return W_v; }
static Sc e3_exact_p(Sc x, Sc y, Sc z) { Sc t = 0; E3_P; return P_v; }
static Sc e3_g_rho(Sc x, Sc y, Sc z, int i) { Sc t = 0; E3_RHO; return GRAD3(RHO, i); }
static Sc e3_g_u(Sc x, Sc y, Sc z, int i) { Sc t = 0; E3_U; return GRAD3(U, i); }
static Sc e3_g_v(Sc x, Sc y, Sc z, int i) { Sc t = 0; E3_V; return GRAD3(V, i); }
static Sc e3_g_w(Sc x, Sc y, Sc z, int i) { Sc t = 0; E3_W; return GRAD3(W, i); }
static Sc e3_g_p(Sc x, Sc y, Sc z, int i) { Sc t = 0; E3_P; return GRAD3(P, i); }
static Sc e3_q_rho(Sc x, Sc y, Sc z) { EULER3D_FIELDS; EULER_OPERATORS; return op_mass; }
static Sc e3_q_rho_u(Sc x, Sc y, Sc z) { EULER3D_FIELDS; EULER_OPERATORS; return op_xmom; }
static Sc e3_q_rho_v(Sc x, Sc y, Sc z) { EULER3D_FIELDS; EULER_OPERATORS; return op_ymom; }
static Sc e3_q_rho_w(Sc x, Sc y, Sc z) { EULER3D_FIELDS; EULER_OPERATORS; return op_zmom; }
static Sc e3_q_rho_e(Sc x, Sc y, Sc z) { EULER3D_FIELDS; EULER_OPERATORS; return op_energy; }
#define E3REQ REQ(VF_PI_OK)
#define CONTRACT_euler_3d__eval_exact_rho_3 E3REQ ENS_EQ(e3_exact_rho(x, y, z)) FRAME()
#define CONTRACT_euler_3d__eval_exact_u_3   E3REQ ENS_EQ(e3_exact_u(x, y, z)) FRAME()
#define CONTRACT_euler_3d__eval_exact_v_3   E3REQ ENS_EQ(e3_exact_v(x, y, z)) FRAME()
#define CONTRACT_euler_3d__eval_exact_w_3   E3REQ ENS_EQ(e3_exact_w(x, y, z)) FRAME()
#define CONTRACT_euler_3d__eval_exact_p_3   E3REQ ENS_EQ(e3_exact_p(x, y, z)) FRAME()
#define CONTRACT_euler_3d__eval_g_rho_4     E3REQ ENS_EQ(e3_g_rho(x, y, z, i)) FRAME(ghost_msg)
#define CONTRACT_euler_3d__eval_g_u_4       E3REQ ENS_EQ(e3_g_u(x, y, z, i)) FRAME(ghost_msg)
#define CONTRACT_euler_3d__eval_g_v_4       E3REQ ENS_EQ(e3_g_v(x, y, z, i)) FRAME(ghost_msg)
#define CONTRACT_euler_3d__eval_g_w_4       E3REQ ENS_EQ(e3_g_w(x, y, z, i)) FRAME(ghost_msg)
#define CONTRACT_euler_3d__eval_g_p_4       E3REQ ENS_EQ(e3_g_p(x, y, z, i)) FRAME(ghost_msg)
#define CONTRACT_euler_3d__eval_q_rho_3     E3REQ ENS_EQ(e3_q_rho(x, y, z)) FRAME()
#define CONTRACT_euler_3d__eval_q_rho_u_3   E3REQ ENS_EQ(e3_q_rho_u(x, y, z)) FRAME()
#define CONTRACT_euler_3d__eval_q_rho_v_3   E3REQ ENS_EQ(e3_q_rho_v(x, y, z)) FRAME()
#define CONTRACT_euler_3d__eval_q_rho_w_3   E3REQ ENS_EQ(e3_q_rho_w(x, y, z)) FRAME()
#define CONTRACT_euler_3d__eval_q_rho_e_3   E3REQ ENS_EQ(e3_q_rho_e(x, y, z)) FRAME()
#endif
