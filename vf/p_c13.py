"""C13 name normalisation (masa_map.cpp): loop-contract proofs of uptolow / remove_line / remove_whitespace / masa_map
over the std::string contracts of lib/vstr.h, plus a bounded stand-in (all strings of length <= 7, reference string
operations, full functional equality with the reference filter) that yields concrete counterexample strings."""
import os, re, sys, json, time
from concurrent.futures import ThreadPoolExecutor
import xstl
from xtract import ExtractionBreak
from common import *
from cbmcjob import cbmc_job
import common
sh = common.run

TRUSTED = [
    'std::string semantics as contracts in lib/vstr.h: find(char,pos) = least index >= pos or npos; replace(pos,1,"") deletes exactly position pos keeping order; length/operator[]/copy-assignment; std::tolower = C-locale ASCII mapping',
    'string capacity VNMAX=64 (proof covers every length 0..64 through loop contracts; longer names are outside the proof)',
    'int(std::string::npos) == -1 (lengths < 2^31)',
    'extractor rule table of vf/xstl.py (std::string& -> vstr*, member calls -> vstr_* calls); loop contracts spliced after loop headers',
    'CBMC 6.11 DFCC + z3 (quantified loop invariants are decided by z3 only)',
]

FUNCS = [
    ('uptolow', []),
    ('remove_line', ['vstr_find', 'vstr_erase1']),
    ('remove_whitespace', ['vstr_find', 'vstr_erase1']),
    ('masa_map', ['uptolow', 'remove_line', 'remove_whitespace']),
]

BOUNDED_N = 7

BOUNDED_HARNESS = r'''
#define VSTR_REFERENCE 1
#define VNMAX %(n1)d
#include "vstr.h"
#define CONTRACT_uptolow
#define CONTRACT_remove_line
#define CONTRACT_remove_whitespace
#define CONTRACT_masa_map
#define LOOP_uptolow_1
#define LOOP_remove_line_1
#define LOOP_remove_whitespace_1
void uptolow(vstr *); void remove_line(vstr *); void remove_whitespace(vstr *);
#include "unit_body.c"
char cex_in[%(n1)d]; int cex_len;
void hb(void)
{
  vstr s; __CPROVER_assume(0 <= s.len && s.len <= %(n)d);
  for (int i = 0; i < %(n1)d; i++) cex_in[i] = s.d[i];
  cex_len = s.len;
  /* reference: lower-case, delete every '-' and ' ' */
  char want[%(n1)d]; int wl = 0;
  for (int i = 0; i < s.len; i++) { char c = (char)vtolower(s.d[i]); if (c != '-' && c != ' ') want[wl++] = c; }
  int rc = masa_map(&s);
  __CPROVER_assert(rc == 0, "masa_map returns 0");
  __CPROVER_assert(s.len == wl, "bounded: result length == number of non-separator characters");
  for (int i = 0; i < wl; i++) __CPROVER_assert(s.d[i] == want[i], "bounded: result == lower-cased input without '-' and ' '");
}
'''

REPLAY_CPP = r'''
#include <masa_internal.h>
#include <cstdio>
#include <string>
int main(int argc, char **argv) {
  std::string s; for (int i = 1; i < argc; i++) s.push_back((char)atoi(argv[i]));
  MASA::masa_map(&s);
  std::printf("REAL"); for (size_t i = 0; i < s.size(); i++) std::printf(" %d", (int)s[i]); std::printf("\n");
  return 0; }
'''


def ref_filter(codes):
    out = []
    for c in codes:
        if 65 <= c <= 90:
            c += 32
        if c not in (45, 32):
            out.append(c)
    return out


def replay_real(codes, wd):
    os.makedirs(wd, exist_ok=True)
    open(os.path.join(wd, 'r.cpp'), 'w').write(REPLAY_CPP)
    rc, out, s, to = sh(['g++', '-O0', '-w', '-I', SRC, '-I', REPO, '-DHAVE_CONFIG_H', 'r.cpp', os.path.join(SRC, 'masa_map.cpp'), '-o', 'r'],
                         cwd=wd, timeout=300)
    if rc != 0:
        return None, 'replay build failed: ' + out[-1500:]
    rc, out, s, to = sh([os.path.join(wd, 'r')] + [str(c) for c in codes], cwd=wd, timeout=30)
    m = re.search(r'^REAL((?: -?\d+)*)$', out, re.M)
    if not m:
        return None, out[-500:]
    return [int(x) for x in m.group(1).split()], out


def show(codes):
    return ''.join(chr(c) if 32 <= c < 127 else '\\x%02x' % (c & 255) for c in codes)


def run_check(tier, seed):
    t0 = time.time()
    rep = Report('C13')
    d = scratch('c13')
    try:
        text, info = xstl.extract_masa_map(os.path.join(SRC, 'masa_map.cpp'))
    except ExtractionBreak as e:
        rep.undecide('extraction break: %s' % e)
        write_evidence('C13', tier, seed, 'proof', {'evaluations': 0, 'distinct_nontrivial': 0, 'explanation': 'extraction break: %s' % e,
                                                    'obligations': 0, 'discharged': 0, 'checker_cmd': 'n/a', 'trusted_base': TRUSTED}, TRUSTED, time.time() - t0, 0)
        return rep.finish()
    open(os.path.join(d, 'unit_body.c'), 'w').write(text)
    open(os.path.join(d, 'unit.c'), 'w').write('#include "vstr.h"\n#include "strings.spec.h"\nvoid uptolow(vstr *); void remove_line(vstr *); void remove_whitespace(vstr *);\n#include "unit_body.c"\n')
    tmo = 120 if tier == 'quick' else 900
    jobs = []
    for f, repl in FUNCS:
        hf = os.path.join(d, 'h_%s.c' % f)
        open(hf, 'w').write('#include "unit.c"\nvoid h_%s(void) { vstr s; %s(&s); __CPROVER_assert(0, "canary"); }\n' % (f, f))
        jobs.append((f, repl, hf))

    def work(j):
        f, repl, hf = j
        return j, cbmc_job(d, f, hf, 'h_' + f, enforce=f, replace=repl, loop_contracts=True, smt=True, timeout=tmo,
                           solvers=['z3', 'z3new'], canary_timeout=60)

    # bounded stand-in (runs concurrently)
    n = BOUNDED_N if tier == 'quick' else BOUNDED_N + 1      # +2 (all strings <= 7) needs ~30 min: too close to any sensible cap
    open(os.path.join(d, 'hb.c'), 'w').write(BOUNDED_HARNESS % {'n': n, 'n1': n + 1})

    def bounded():
        a = os.path.join(d, 'hb.gb')
        rc, out, s, to = sh(['goto-cc', '-I', LIB, '-I', CONTRACTS, '-I', d, '--function', 'hb', 'hb.c', '-o', a], cwd=d, timeout=120)
        if rc != 0:
            return None, out, 0
        cmd = ['cbmc', '--unwind', str(n + 3), '--unwinding-assertions', '--trace', '--no-standard-checks', '--bounds-check', a]
        rc, out, s, to = sh(cmd, cwd=d, timeout=3600 if tier == 'thorough' else 600)
        return (' '.join(cmd), out, s) if not to else (None, 'timeout', s)

    with ThreadPoolExecutor(max_workers=6) as ex:
        fb = ex.submit(bounded)
        results = list(ex.map(work, jobs))
        bcmd, bout, bsec = fb.result()

    n_obl = n_dis = 0
    per_fn, samples = [], []
    failed_proofs = []
    for (f, repl, hf), r in results:
        per_fn.append({'function': f, 'status': r.status, 'backend': r.backend, 'seconds': round(r.seconds, 2), 'canary': r.canary,
                       'obligations': len(r.obligations), 'callees_replaced_by_contract': repl,
                       'source_sha256': [i['sha256'] for i in info if i['function'] == f][0]})
        if r.status == 'discharged' and r.canary == 'reachable':
            n_obl += len(r.obligations)
            n_dis += len(r.obligations)
            samples.append({'function': f, 'obligations': [o[0] for o in r.obligations if 'loop' in o[0] or 'postcondition' in o[0]][:10]})
        else:
            failed_proofs.append((f, r))

    # bounded stand-in verdict
    bres = parse_cbmc(bout) if bcmd else []
    bfail = [x for x in bres if x[2] == 'FAILURE']
    bounded_info = {'what': 'masa_map on every byte string of length <= %d with reference vstr operations == reference filter' % n,
                    'bound': 'length <= %d, --unwind %d --unwinding-assertions' % (n, n + 3), 'seconds': round(bsec, 1),
                    'checks': len(bres), 'failed': [x[0] for x in bfail], 'label': 'bounded (never counted as proved)'}
    cex = None
    if bfail:
        # read the counterexample string from the trace
        blocks = bout.split('Trace for ')
        blk = blocks[1] if len(blocks) > 1 else bout
        ln = re.findall(r'cex_len=(-?\d+)', blk)
        chars = {}
        for m in re.finditer(r'cex_in\[(\d+)l?\]=[^\n]*\(([01]{8})\)', blk):
            b_ = int(m.group(2), 2)
            chars[int(m.group(1))] = b_ - 256 if b_ > 127 else b_
        if ln:
            L = int(ln[-1])
            cex = [chars.get(i, 0) for i in range(L)]
    elif not bres or 'VERIFICATION SUCCESSFUL' not in bout:
        # the stand-in only supplies concrete counterexample strings; when every contract obligation is discharged its absence decides nothing
        bounded_info['label'] = 'bounded stand-in DID NOT COMPLETE (%s); nothing is claimed from it' % bout[-120:].strip()
        if failed_proofs:
            rep.undecide('bounded stand-in did not complete: %s' % bout[-300:])

    if cex is not None:
        real, rlog = replay_real(cex, os.path.join(d, 'replay'))
        want = ref_filter(cex)
        payload = {'function': 'masa_map', 'input_codes': cex, 'input': show(cex), 'expected_codes': want, 'expected': show(want),
                   'real_codes': real, 'real': show(real) if real is not None else None,
                   'failed_obligations': [x[0] for x in bfail] + ['%s: %s' % (f, r.detail) for f, r in failed_proofs],
                   'verifier_output': '\n'.join(r.log[-3000:] for f, r in failed_proofs)[-8000:], 'bounded_trace_tail': bout[-3000:]}
        if real is not None and real != want:
            rep.violation('masa_map.normal_form', payload)
        else:
            rep.undecide('bounded stand-in reports a counterexample %r that the real library does not reproduce' % show(cex))
    for f, r in failed_proofs:
        key = f + '.contract'
        if cex is not None and rep.violations:
            continue     # already reported with a concrete input
        payload = {'function': f, 'status': r.status, 'failed_obligations': r.failed, 'detail': r.detail, 'verifier_output': r.log[-8000:],
                   'checker_cmd': r.cmd}
        if r.status == 'refuted':
            rep.violation(key, payload, no_input=True)
        else:
            rep.undecide('%s: %s (%s)' % (f, r.status, r.detail))

    cov = {'obligations': n_obl + len(rep.violations) + len(rep.undecided), 'discharged': n_dis,
           'checker_cmd': results[0][1].cmd if results else '',
           'trusted_base': TRUSTED, 'functions_under_contract': [f for f, _ in FUNCS], 'per_function': per_fn,
           'extraction': info, 'bounded': [bounded_info], 'samples': samples or [{'note': 'nothing discharged'}],
           'explanation': 'loop contracts (quantified invariants + decreases) on the four functions of masa_map.cpp; '
                          'result == input lower-cased with every "-" and " " deleted follows from: only separators erased (ghost flag), '
                          'erase keeps order (std::string contract), no separator/upper-case letter remains (postconditions). '
                          'The bounded stand-in is a separate, weaker check used to obtain concrete counterexample strings.'}
    write_evidence('C13', tier, seed, 'proof', cov, TRUSTED, time.time() - t0, len(rep.violations))
    print('C13: %d functions under contract, %d obligations discharged of %d; bounded stand-in failed=%d (%.1fs)' % (
        len(FUNCS), n_dis, cov['obligations'], len(bfail), time.time() - t0))
    return rep.finish()


def run(tier, seed):
    return run_check(tier, seed)


def replay(path):
    p = json.load(open(path))
    if 'input_codes' not in p:
        print('replay file carries no concrete input; failed obligations: %s' % p.get('failed_obligations'))
        print((p.get('verifier_output') or '')[-3000:])
        return EXIT_VIOLATION
    real, log = replay_real(p['input_codes'], scratch('c13r'))
    want = ref_filter(p['input_codes'])
    print('masa_map(%r): real=%r expected=%r' % (show(p['input_codes']), show(real) if real is not None else None, show(want)))
    if real is None:
        print(log)
        return EXIT_UNDECIDED
    if real != want:
        print('VIOLATION property=C13 replay=%s' % path)
        return EXIT_VIOLATION
    return EXIT_OK
