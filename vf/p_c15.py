"""C15 sentinel stubs: every inline base-class stub returns -1.33, prints a (S)MASA ERROR line, touches nothing else;
every API template forwards arity k of variable X to arity k of the method named for X on the selected object."""
import os, time
import apicheck
from common import scratch

def run(tier, seed):
    t0 = time.time()
    base = scratch('c15')
    jobs, not_under, info = apicheck.build({'stubs', 'forwarders'}, base, only=os.environ.get('VF_ONLY'))
    results = apicheck.run_jobs(jobs, base, tier)
    return apicheck.finish('C15', results, not_under, info, tier, seed, t0, base,
        'stubs: ensures ret == -1.33, MASA ERROR message bit set, assigns(ghost_msg) only (no exit, no parameter write); '
        'forwarders: exactly one virtual call, on the selected object, to the method derived from the API name, with the '
        'same arguments in the same order; result returned unchanged; registry untouched (frame). That a class without an '
        'override reaches the stub is C++ virtual dispatch (assumed).')

replay = apicheck.replay_generic
