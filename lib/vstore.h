/* vstore.h -- contract-bearing C interface standing for the STL containers of the parameter store (masa_class.cpp)
 * and the handle registry (masa_core.cpp).  TRUSTED: the contracts below are the assumed semantics of
 *   std::map<std::string,T>::find / end / begin / ++ / operator[] / size,   std::vector<T*>::push_back / operator[] / size.
 * Modelling rules (stated in DESIGN.md 3.1):
 *   - std::string keys are interned identifiers vkey in [0,KMAX): only equality/ordering of whole strings is used;
 *   - a map is the pair (present[k], val[k]) indexed by key; an iterator IS a key; end() is VEND; iteration visits the
 *     present keys in increasing order (std::map order);
 *   - Scalar* is an address in the abstract scalar heap `heap[]` (HEAP(a) is *a); distinct C++ objects have distinct addresses;
 *   - std::vector<Scalar> objects are addresses in `vecval[]`, whose entry is the abstract value (length + contents) of the vector.
 * KMAX/HMAX/VMAXV are capacities; loops are closed by loop contracts so proofs hold for every fill level up to capacity. */
#ifndef VF_VSTORE_H
#define VF_VSTORE_H
#ifndef KMAX
#define KMAX 256
#define HMAX 512
#define VMAXV 256
#endif
#define VEND KMAX
typedef int vkey;
typedef int vaddr;      /* address of a Scalar in heap[] */
typedef int vvecid;     /* address of a std::vector<Scalar> in vecval[] */
#define KEY_OK(k) (0 <= (k) && (k) < KMAX)

/* One std::map<std::string,int> named M: separate global arrays (arrays inside a struct would be flattened to one huge
 * bit-vector by the SMT back end) + its contract-bearing operations. */
#define VMAP_DECLARE(M) \
_Bool M##_present[KMAX]; int M##_val[KMAX]; int M##_size; \
/* M.find(k) */ \
int M##_find(vkey k) \
__CPROVER_requires(KEY_OK(k)) \
__CPROVER_assigns() \
__CPROVER_ensures(__CPROVER_return_value == (M##_present[k] ? k : VEND)); \
/* M[k] read as an rvalue: inserts (k,0) when absent, yields the mapped value */ \
int M##_get_or_insert(vkey k) \
__CPROVER_requires(KEY_OK(k) && 0 <= M##_size && M##_size < KMAX) \
__CPROVER_assigns(M##_present[k], M##_val[k], M##_size) \
__CPROVER_ensures(M##_present[k] && __CPROVER_return_value == M##_val[k]) \
__CPROVER_ensures(__CPROVER_old(M##_present[k]) ? (M##_val[k] == __CPROVER_old(M##_val[k]) && M##_size == __CPROVER_old(M##_size)) \
                                               : (M##_val[k] == 0 && M##_size == __CPROVER_old(M##_size) + 1)); \
/* M[k] = v */ \
void M##_set(vkey k, int v) \
__CPROVER_requires(KEY_OK(k) && 0 <= M##_size && M##_size < KMAX) \
__CPROVER_assigns(M##_present[k], M##_val[k], M##_size) \
__CPROVER_ensures(M##_present[k] && M##_val[k] == v) \
__CPROVER_ensures(M##_size == __CPROVER_old(M##_size) + (__CPROVER_old(M##_present[k]) ? 0 : 1)); \
/* M.begin() / ++it : least present key / next present key, VEND when none (std::map iterates in key order) */ \
int M##_begin(void) \
__CPROVER_assigns() \
__CPROVER_ensures(0 <= __CPROVER_return_value && __CPROVER_return_value <= VEND) \
__CPROVER_ensures(__CPROVER_return_value < VEND ==> M##_present[__CPROVER_return_value]) \
__CPROVER_ensures(__CPROVER_forall { int kb; (0 <= kb && kb < __CPROVER_return_value) ==> !M##_present[kb] }); \
int M##_next(int it) \
__CPROVER_requires(KEY_OK(it)) \
__CPROVER_assigns() \
__CPROVER_ensures(it < __CPROVER_return_value && __CPROVER_return_value <= VEND) \
__CPROVER_ensures(__CPROVER_return_value < VEND ==> M##_present[__CPROVER_return_value]) \
__CPROVER_ensures(__CPROVER_forall { int kn; (it < kn && kn < __CPROVER_return_value) ==> !M##_present[kn] });

/* One std::vector<T*> named V */
#define VVEC_DECLARE(V) \
int V##_p[VMAXV]; int V##_n; \
/* V.push_back(x) */ \
void V##_push(int x) \
__CPROVER_requires(0 <= V##_n && V##_n < VMAXV) \
__CPROVER_assigns(V##_n, V##_p[V##_n]) \
__CPROVER_ensures(V##_n == __CPROVER_old(V##_n) + 1 && V##_p[__CPROVER_old(V##_n)] == x); \
/* V[i] with the bounds obligation std::vector leaves to the caller (C19) */ \
static int V##_at(int i) \
{ \
  __CPROVER_assert(0 <= i && i < V##_n, "std::vector index within size()"); \
  return i; \
}
/* same, with a reference body for push_back (used where the call is inlined instead of replaced by the contract) */
#define VVEC_DECLARE_WITH_BODY(V) \
int V##_p[VMAXV]; int V##_n; \
void V##_push(int x) \
__CPROVER_requires(0 <= V##_n && V##_n < VMAXV) \
__CPROVER_assigns(V##_n, V##_p[V##_n]) \
__CPROVER_ensures(V##_n == __CPROVER_old(V##_n) + 1 && V##_p[__CPROVER_old(V##_n)] == x) \
{ V##_p[V##_n] = x; V##_n = V##_n + 1; } \
static int V##_at(int i) \
{ \
  __CPROVER_assert(0 <= i && i < V##_n, "std::vector index within size()"); \
  return i; \
}
/* ---- reference implementations (concrete arrays, no contracts): used by the per-class constructor harnesses, where every key and
 *      address is a constant and CBMC simply executes the code.  Each body is checked against the contract above by
 *      the `container refinement` obligations of C11 (enforce-contract on the reference body). ---- */
#define VMAP_DECLARE_REF(M) \
_Bool M##_present[KMAX]; int M##_val[KMAX]; int M##_size; \
int M##_find(vkey k) { return M##_present[k] ? k : VEND; } \
int M##_get_or_insert(vkey k) { if (!M##_present[k]) { M##_present[k] = 1; M##_val[k] = 0; M##_size++; } return M##_val[k]; } \
void M##_set(vkey k, int v) { if (!M##_present[k]) { M##_present[k] = 1; M##_size++; } M##_val[k] = v; } \
int M##_begin(void) { int k = 0; while (k < KMAX && !M##_present[k]) k++; return k; } \
int M##_next(int it) { int k = it + 1; while (k < KMAX && !M##_present[k]) k++; return k; }
#define VVEC_DECLARE_REF(V) \
int V##_p[VMAXV]; int V##_n; \
void V##_push(int x) { V##_p[V##_n] = x; V##_n = V##_n + 1; } \
static int V##_at(int i) \
{ \
  __CPROVER_assert(0 <= i && i < V##_n, "std::vector index within size()"); \
  return i; \
}
#endif
