"""loopsplit.py -- rule S: mechanical splitting of an extracted C function with one top-level loop into
   prologue / guard / body / epilogue functions over file-scope copies of its locals and parameters, so that the loop can be
   verified by the Hoare while-rule with FUNCTION contracts (which, unlike CBMC loop invariants, may call spec functions):
       {P} prologue {I}     {I && guard} body {I || returned-with-Q}     {I && !guard} epilogue {Q}
   The induction over iterations is the (trusted) while-rule; every statement of the function appears verbatim in exactly one part."""
import re
from xtract import tokenize, match_close, ExtractionBreak


def _toks(text):
    return [t for t in tokenize(text) if t[0] != 'nl']


def _join(ts):
    out = ''
    depth = 0
    for k, v in ts:
        out += v + ' '
        if v == '(':
            depth += 1
        elif v == ')':
            depth -= 1
        if (v == ';' and depth == 0) or v in ('{', '}'):
            out += '\n'
    return out


def split(func, prefix):
    """func: xtract.Func (C text in func.body_c, args in func.args) -> dict of C fragments"""
    ts = _toks(func.body_c)
    # locate the single top-level for loop
    depth = 0
    loop_i = None
    for i, (k, v) in enumerate(ts):
        if v == '{':
            depth += 1
        elif v == '}':
            depth -= 1
        elif depth == 0 and k == 'id' and v == 'for':
            if loop_i is not None:
                raise ExtractionBreak('%s: more than one top-level loop' % func.cname)
            loop_i = i
    if loop_i is None:
        raise ExtractionBreak('%s: no top-level for loop' % func.cname)
    hdr_end = match_close(ts, loop_i + 1)
    hdr = ts[loop_i + 2:hdr_end]
    parts, cur, d = [], [], 0
    for t in hdr:
        if t[1] == '(':
            d += 1
        elif t[1] == ')':
            d -= 1
        if t[1] == ';' and d == 0:
            parts.append(cur)
            cur = []
        else:
            cur.append(t)
    parts.append(cur)
    if len(parts) != 3:
        raise ExtractionBreak('%s: for header shape' % func.cname)
    init, cond, incr = parts
    j = hdr_end + 1
    while ts[j][0] == 'id' and ts[j][1].startswith('LOOP_'):
        j += 1
    if ts[j][1] != '{':
        raise ExtractionBreak('%s: loop body is not a block' % func.cname)
    body_end = match_close(ts, j, '{', '}')
    pre, body, post = ts[:loop_i], ts[j + 1:body_end], ts[body_end + 1:]
    # local declarations of the prologue become file-scope variables
    decls = []
    pre2 = []
    i = 0
    while i < len(pre):
        if pre[i][0] == 'id' and pre[i][1] in ('Sc', 'int') and i + 1 < len(pre) and pre[i + 1][0] == 'id':
            ty = pre[i][1]
            e = i
            while pre[e][1] != ';':
                e += 1
            stmt = pre[i + 1:e]
            # split declarators at top-level commas
            ds, cur, d = [], [], 0
            for t in stmt:
                if t[1] == '(':
                    d += 1
                elif t[1] == ')':
                    d -= 1
                if t[1] == ',' and d == 0:
                    ds.append(cur)
                    cur = []
                else:
                    cur.append(t)
            ds.append(cur)
            for dcl in ds:
                decls.append('%s %s;' % (ty, dcl[0][1]))
                if len(dcl) > 1:
                    pre2 += dcl + [('op', ';')]
            i = e + 1
            continue
        pre2.append(pre[i])
        i += 1
    for t, n, k in func.args:
        decls.append('%s %s;' % (t, n))

    def fix_returns(seq):
        out = []
        i = 0
        while i < len(seq):
            if seq[i][0] == 'id' and seq[i][1] == 'return':
                e = i
                while seq[e][1] != ';':
                    e += 1
                out += [('op', '{'), ('id', 'vf_ret'), ('op', '=')] + seq[i + 1:e] + [('op', ';'), ('id', 'vf_returned'), ('op', '='), ('num', '1'), ('op', ';'),
                                                                                        ('id', 'return'), ('op', ';'), ('op', '}')]
                i = e + 1
                continue
            out.append(seq[i])
            i += 1
        return out

    scal = [d_.split()[1].rstrip(';') for d_ in decls if d_.startswith('Sc ')]
    ints = [d_.split()[1].rstrip(';') for d_ in decls if d_.startswith('int ')]
    parts = {'prologue': _join(fix_returns(pre2)) + _join(init).strip() + ' ;\n',
             'guard': 'return ' + _join(cond).strip() + ' ;\n',
             'body': _join(fix_returns(body)) + _join(incr).strip() + ' ;\n',
             'epilogue': _join(fix_returns(post))}
    return scal, ints, parts
