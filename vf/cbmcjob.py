"""cbmcjob.py -- one function under contract through goto-cc -> goto-instrument --dfcc -> cbmc.

SMT jobs run a solver portfolio (cvc5, z3 4.8, z3 5.x) in parallel on the same instrumented program; the first
definitive answer wins (all obligations SUCCESS, or a named FAILURE).  The vacuity canary (assert(0) behind all
assumptions of the harness) is checked in a separate cbmc run so that the main run never needs a model."""
import os, re, time, subprocess, signal, shutil
from common import run, parse_cbmc, BAD_LOG, z3new_env, LIB, CONTRACTS, _limits

_z3env = None
PROP_RE = re.compile(r'^Property (?P<id>\S+):\n(?:.*\n)?  (?P<desc>.*)$', re.M)


class JobResult:
    def __init__(self, name):
        self.name = name
        self.status = 'error'     # discharged | refuted | undecided | error | vacuous
        self.obligations = []     # (id, desc, status) excluding canary and instrumentation-library checks
        self.library_checks = 0
        self.failed = []          # ids with FAILURE
        self.backend = None
        self.canary = None        # 'reachable' | 'unreachable' | 'undecided' | None
        self.seconds = 0.0
        self.log = ''
        self.detail = ''
        self.cmd = ''


def _popen(cmd, cwd, env=None):
    return subprocess.Popen(cmd, cwd=cwd, stdout=subprocess.PIPE, stderr=subprocess.STDOUT, env=env,
                            preexec_fn=_limits, stdin=subprocess.DEVNULL)


def _kill(p):
    try:
        os.killpg(p.pid, signal.SIGKILL)
    except OSError:
        pass


def list_properties(b, cwd):
    """-> [(id, description)] from `cbmc --show-properties` (id line, location line, description line, expression)"""
    rc, out, s, to = run(['cbmc', '--show-properties', b], cwd=cwd, timeout=120)
    lines = out.splitlines()
    props = []
    for i, ln in enumerate(lines):
        m = re.match(r'^Property (\S+):$', ln)
        if m:
            desc = lines[i + 2].strip() if i + 2 < len(lines) else ''
            props.append((m.group(1), desc))
    return props, out


def cbmc_job(workdir, name, harness_file, entry, enforce=None, replace=(), loop_contracts=False, smt=True,
             timeout=60, extra_cbmc=(), extra_instr=(), own_prefixes=(), solvers=None, defines=(), nondet_static=True,
             expect_canary=True, canary_timeout=30):
    global _z3env
    r = JobResult(name)
    t0 = time.time()
    a = os.path.join(workdir, name + '.a.gb')
    b = os.path.join(workdir, name + '.b.gb')
    cc = ['goto-cc', '-I', LIB, '-I', CONTRACTS, '-I', workdir, '--function', entry] + ['-D' + d for d in defines] + \
         [harness_file, '-o', a]
    rc, out, s, to = run(cc, cwd=workdir, timeout=120)
    if rc != 0 or to:
        r.status, r.detail, r.log = 'error', 'goto-cc failed', out
        r.seconds = time.time() - t0
        return r
    gi = ['goto-instrument', '--dfcc', entry]
    if enforce:
        gi += ['--enforce-contract', enforce]
    for g in replace:
        gi += ['--replace-call-with-contract', g]
    if loop_contracts:
        gi += ['--apply-loop-contracts']
    if nondet_static:
        gi += ['--nondet-static']
    gi += list(extra_instr) + [a, b]
    rc, out2, s, to = run(gi, cwd=workdir, timeout=300)
    if rc != 0 or to:
        r.status, r.detail, r.log = 'error', 'goto-instrument failed', out + out2
        r.seconds = time.time() - t0
        return r
    props, plog = list_properties(b, workdir)
    canary_ids = [p for p, d in props if d.strip().endswith('canary')]
    main_ids = [p for p, d in props if p not in canary_ids]
    if not main_ids:
        r.status, r.detail, r.log = 'vacuous', 'no obligations generated', plog[-2000:]
        r.seconds = time.time() - t0
        return r
    prefixes = tuple(own_prefixes) or tuple(p for p in (enforce, entry) if p)
    if solvers is None:
        solvers = ['cvc5', 'z3', 'z3new'] if smt else ['sat']
    procs = []
    sel = []
    for p in main_ids:
        sel += ['--property', p]
    for sv in solvers:
        env = None
        if sv == 'cvc5':
            flag = ['--cvc5']
        elif sv == 'z3':
            flag = ['--z3']
        elif sv == 'z3new':
            if _z3env is None:
                _z3env = z3new_env() or False
            if not _z3env:
                continue
            flag, env = ['--z3'], _z3env
        else:
            flag = []
        cmd = ['cbmc'] + flag + list(extra_cbmc) + sel + [b]
        procs.append([sv, _popen(cmd, workdir, env), cmd, None])
    cp = None
    if expect_canary and canary_ids:
        ccmd = ['cbmc'] + (['--cvc5'] if smt else []) + list(extra_cbmc) + ['--property', canary_ids[0], b]
        cp = _popen(ccmd, workdir)
    r.cmd = ' '.join(cc) + ' && ' + ' '.join(gi) + ' && cbmc --%s <properties> %s' % ('|'.join(solvers), os.path.basename(b))
    logs = []
    deadline = time.time() + timeout
    winner = None
    pending = list(procs)
    while pending and time.time() < deadline and winner is None:
        for pr in list(pending):
            sv, p, cmd, _ = pr
            if p.poll() is None:
                continue
            pending.remove(pr)
            o = p.stdout.read().decode('utf-8', 'replace')
            logs.append('--- %s (%.1fs)\n%s' % (sv, time.time() - t0, o[-6000:]))
            if smt and 'Running SMT2' not in o:
                continue
            res = parse_cbmc(o)
            if not res or any(b_ in o for b_ in BAD_LOG) or any(st in ('ERROR', 'UNKNOWN') for _, _, st in res) \
                    or ('VERIFICATION SUCCESSFUL' not in o and 'VERIFICATION FAILED' not in o):
                continue
            winner = (sv, res)
            break
        if winner is None and pending:
            time.sleep(0.05)
    for pr in pending:
        _kill(pr[1])
        try:
            pr[1].stdout.read()
        except Exception:
            pass
        logs.append('--- %s: no answer within %ds (killed)' % (pr[0], timeout) if winner is None else '--- %s: stopped (another solver answered)' % pr[0])
    if winner is None:
        r.status, r.detail = 'undecided', 'no solver gave a definitive answer within %ds' % timeout
    else:
        sv, res = winner
        own = [x for x in res if x[0].startswith(prefixes)]
        lib = [x for x in res if x not in own]
        r.obligations, r.library_checks, r.backend = own, len(lib), sv
        r.failed = [x[0] for x in own + lib if x[2] == 'FAILURE']
        if not own:
            r.status, r.detail = 'vacuous', 'no obligations generated for %s' % (prefixes,)
        elif r.failed:
            r.status, r.detail = 'refuted', ','.join(r.failed)
        else:
            r.status, r.detail = 'discharged', ''
    # canary
    if cp is not None:
        try:
            o, _ = cp.communicate(timeout=max(1, canary_timeout - (time.time() - t0)) if r.status != 'discharged' else canary_timeout)
            o = o.decode('utf-8', 'replace')
            cres = [x for x in parse_cbmc(o) if x[0] in canary_ids]
            if cres and cres[0][2] == 'FAILURE':
                r.canary = 'reachable'
            elif cres and cres[0][2] == 'SUCCESS':
                r.canary = 'unreachable'
                logs.append('--- canary\n' + o[-2000:])
            else:
                r.canary = 'undecided'
        except subprocess.TimeoutExpired:
            _kill(cp)
            cp.communicate()
            r.canary = 'undecided'
        if r.canary == 'unreachable' and r.status == 'discharged':
            r.status, r.detail = 'vacuous', 'canary unreachable: preconditions/axioms contradictory'
    r.log = '\n'.join(logs)
    r.seconds = time.time() - t0
    return r
