/* native.h -- native twin prelude: the same extracted C compiled with long double + libm.
 * Used only to SEARCH for concrete counterexamples and for bounded stand-ins; never a proof. */
#ifndef VF_NATIVE_H
#define VF_NATIVE_H
#define VF_NATIVE 1
#include <math.h>
#include <stdio.h>
#include <stdlib.h>
#include <string.h>
#include <float.h>
typedef long double Sc;

static int ghost_msg, ghost_exit, ghost_nan;
#define GHOST_MSG(c) (ghost_msg |= (c))
#define GHOST_EXIT(c) (ghost_exit = 1000 + (c))

static Sc LITf(long n, long d) { return (Sc)n / (Sc)d; }
#define LIT(n, d) LITf(n, d)
#define SCAST(x) ((Sc)(x))
static Sc vcos(Sc a) { return cosl(a); }
static Sc vsin(Sc a) { return sinl(a); }
static Sc vinv(Sc a) { return 1.0L / a; }
static Sc vsqrt(Sc a) { return sqrtl(a); }
static Sc vexp(Sc a) { return expl(a); }
static Sc vlog(Sc a) { return logl(a); }
static Sc vtanh(Sc a) { return tanhl(a); }
static Sc vasin(Sc a) { return asinl(a); }
static Sc vacos(Sc a) { return acosl(a); }
static Sc vatan(Sc a) { return atanl(a); }
static Sc verf(Sc a) { return erfl(a); }
static Sc vabs(Sc a) { return fabsl(a); }
static Sc vpowi(Sc b, int n) { return powl(b, (Sc)n); }
static Sc vpow(Sc b, Sc e) { return powl(b, e); }
#define VF_EPS() ((Sc)LDBL_EPSILON)
#define VF_NAN() (ghost_nan = 1, (Sc)NAN)
#define VF_TOINT(x) ((int)(x))
static int vf_oob;
static int VF_IDX_(int i, int n) { if (i < 0 || i >= n) { vf_oob = 1; return 0; } return i; }   /* out-of-container index: flagged, element 0 read instead */
#define VF_IDX(i, n) VF_IDX_((i), (n))
static Sc pi, PI;
#define VF_PI_OK (pi == PI)
#define REQ(e)
#define ENS_EQ(e)
#define ENS(e)
#define FRAME(...)
#define VF_ASSUME(c) do { if (!(c)) vf_assume_failed = 1; } while (0)
#define VF_ASSERT(c, n) do { } while (0)
#define __CPROVER_assume(c) VF_ASSUME(c)
static int vf_assume_failed;
#ifndef true
#define true 1
#define false 0
#endif
#endif
