/* api.h -- prelude for the API-layer units (masa_core.cpp forwarders, MasterMS::get_ms, cmasa.cpp wrappers,
 * base-class stubs of masa_internal.h).  Scalars are real IEEE doubles here (values are only moved and compared),
 * objects / std::string / std::vector / out-pointers are opaque handles, and every call that leaves the unit
 * (virtual call on the selected solution object, C++ template called by a C wrapper) is an uninterpreted function
 * of its arguments PLUS a ghost call record, so a contract can say "exactly this callee with exactly these arguments". */
#ifndef VF_API_H
#define VF_API_H
typedef double Sc;
typedef int vobj;       /* identity of a manufactured_solution object; 0 == NULL */
typedef int vhandle;    /* opaque std::string / std::vector / out-pointer / callback argument */

int ghost_msg;          /* 1 other text, 2 'MASA ERROR'/'SMASA ERROR', 4 'MASA FATAL ERROR', 8 other error text */
int ghost_exit;         /* 0, or 1000+code once masa_exit(code) was reached */
int ghost_process_exit; /* exit(code) reached inside masa_exit: 1000+code */
int ghost_throw;        /* throw(code) reached inside masa_exit: 1000+code */
#define GHOST_MSG(c) (ghost_msg |= (c))
#define GHOST_EXIT(c) (ghost_exit = 1000 + (c))

/* ghost record of the last call leaving the unit */
int ghost_ncalls;
int ghost_callee;
vobj ghost_obj;
Sc ghost_ad[6];
int ghost_ai[6];

/* MasterMS<Scalar> state */
vobj _master_pointer;

/* dereference of the selected object: only legal when non-null, or after the fatal exit was signalled */
static vobj MS_DEREF(vobj p)
{
  __CPROVER_assert(p != 0 || ghost_exit != 0, "selected solution dereferenced only when non-NULL (verify_pointer_sanity first)");
  return p;
}
/* bit-for-bit equality of doubles up to NaN payload */
#define SAME(a, b) ((a) == (b) || ((a) != (a) && (b) != (b)))
/* rule VD: a virtual member call made from a base-class default body; the dynamic type decides the target, so value and messages are arbitrary */
int __VERIFIER_nondet_int(void);
double __VERIFIER_nondet_double(void);
static Sc VF_VIRTUAL_DISPATCH(void) { ghost_msg = __VERIFIER_nondet_int(); return __VERIFIER_nondet_double(); }
#endif
