/* sa_bounded.h -- contracts of the C05 functions that are NOT discharged deductively (listed in vf/p_c05.py BOUNDED).
 * They live in this separate file on purpose: vf/numeric.py only enforces (and only counts) the CONTRACT_ macros of the
 * main spec file, so a contract here is attached to the function for `--replace-call-with-contract` in the callers'
 * modular proofs but is never itself claimed as discharged.  Each is the un-weakened contract the property demands;
 * its validation is the bounded stand-in (native twin, DESIGN 3.4). */
#if defined(UNIT_rans_sa)
/* dvt == d/d eta [ NU * fv1(CHI) ]: needs inv(re_tau^3 q) = inv(re_tau)^3 inv(q) under a differentiation (the code works with
 * a = cv1/re_tau, the definition with chi = nu re_tau): cvc5, z3 4.8, z3 5.1 all time out at 300 s, also with atomic nu. */
#define CONTRACT_rans_sa__dvt_1          REQ(1) ENS_EQ(rs_dvt(eta)) FRAME()
#endif
