#!/usr/bin/env python3
"""finite -- mechanical finite expansion of the quantifiers in contract text, for the small-scope REFUTATION pass only.

`__CPROVER_forall { int v; BODY }` becomes the conjunction of BODY[v := 0] ... BODY[v := S-1] (exists: disjunction), where S is
the smallest capacity constant that bounds v in BODY (`v < KMAX`, `v < NCAT` ...), evaluated at the small capacities the pass
compiles with.  Every quantifier in the contracts has the guarded shape `(lo <= v && v < hi && ...) ==> ...`, so instances outside
the guard are true/false by the guard itself and C's short-circuit evaluation never reads an array outside its bounds.

The expanded text is quantifier-free: CBMC's SAT back end decides it exactly and prints a trace.  A FAILED obligation there is a
counterexample of the same contract over the same extracted code in a state with few handles / names / objects; an all-SUCCESS
result proves nothing (small capacities) and is never reported as discharged."""
import re


class FiniteBreak(Exception):
    pass


def _match(text, i, open_c, close_c):
    d = 0
    while i < len(text):
        c = text[i]
        if c == open_c:
            d += 1
        elif c == close_c:
            d -= 1
            if d == 0:
                return i
        i += 1
    raise FiniteBreak('unbalanced %s' % open_c)


QRE = re.compile(r'__CPROVER_(forall|exists)\s*(?:\\\n\s*)?\{')


def expand(text, caps, loopvar_bound):
    """caps: {'KMAX': 4, ...}; loopvar_bound: capacity name to use for a variable bounded only by a program variable"""
    out = []
    pos = 0
    n = 0
    while True:
        m = QRE.search(text, pos)
        if not m:
            out.append(text[pos:])
            break
        out.append(text[pos:m.start()])
        ob = m.end() - 1
        cb = _match(text, ob, '{', '}')
        inner = text[ob + 1:cb]
        dm = re.match(r'\s*(?:\\\n\s*)?(?:int|unsigned|long|size_t)\s+(\w+)\s*;', inner)
        if not dm:
            raise FiniteBreak('quantifier without `int v;`: %s' % inner[:80])
        v = dm.group(1)
        body = inner[dm.end():]
        body = body.replace('\\\n', ' ')
        body, k = expand(body, caps, loopvar_bound)     # inner quantifiers first
        n += k
        pairs = re.findall(r'\b%s\s*<(=?)\s*([A-Za-z_]\w*)' % re.escape(v), body)
        bounds = [b for _, b in pairs]
        known = [caps[b] + (1 if eq else 0) for eq, b in pairs if b in caps]
        if known:
            S = min(known)
        elif bounds:
            S = loopvar_bound(bounds, caps) + 1
        else:
            raise FiniteBreak('no upper bound for %s in: %s' % (v, body[:100]))
        op = ' && ' if m.group(1) == 'forall' else ' || '
        inst = [re.sub(r'\b%s\b' % re.escape(v), str(j), body) for j in range(S)]
        out.append('(' + op.join('(' + x.strip() + ')' for x in inst) + ')')
        n += 1
        pos = cb + 1
    return ''.join(out), n


def default_loopvar_bound(bounds, caps):
    """a variable bounded only by program variables: the candidate-vector capacity for a loop counter over the candidates, else the largest capacity
    (more instances than needed are harmless: each is guarded by its own range condition)"""
    if 'NCAT_MAX' in caps and any(b in ('i', 'it', 'anim_n') for b in bounds):
        return caps['NCAT_MAX']
    known = [caps[k] for k in ('KMAX', 'HMAX', 'VMAXV', 'OMAX', 'NCAT_MAX', 'VNMAX') if k in caps]
    if not known:
        raise FiniteBreak('no capacity known for a variable bounded by %s' % bounds)
    return max(known)


if __name__ == '__main__':
    import sys
    t, n = expand(open(sys.argv[1]).read(), {'KMAX': 4, 'NCAT': 37, 'NCAT_MAX': 64, 'OMAX': 160, 'HMAX': 8, 'VMAXV': 8}, default_loopvar_bound)
    sys.stdout.write(t)
    sys.stderr.write('%d quantifiers expanded\n' % n)
