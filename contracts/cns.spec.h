/* cns.spec.h -- contracts for the compressible Navier-Stokes family (properties C03, C07):
 *   navierstokes_2d_compressible, navierstokes_3d_compressible (src/cns.cpp),
 *   axi_cns = "axisymmetric_navierstokes_compressible" (src/axi_cns.cpp), axi_cns_transient (src/axi_cns_transient.cpp).
 *
 * Oracle = the property statement + doxygen/solutions/cns.page:
 *   mass      rho_t + div(rho u)                                      = Q_rho
 *   momentum  (rho u_j)_t + div(rho u u_j) + p_,j - div(tau)_j          = Q_u/v/w
 *   energy    (rho e_t)_t + div(rho u H) + div(q) - div(tau . u)        = Q_e
 *   tau_ij = mu (u_i,j + u_j,i) - (2/3) mu div(u) delta_ij  (mu constant),  q = -k grad T,  T = p / (rho R),
 *   rho e_t = p/(Gamma-1) + rho|u|^2/2,  rho H = rho e_t + p   (conservative forms of EULER_OPERATORS in roy.h).
 * applied to the jets of the exact fields the API returns (eval_exact_*), which get ENS_EQ(<same jet>_v); the eval_g_*
 * evaluators of the 2-D / 3-D classes get the first-derivative components of the same jets (C07).
 * The inviscid part is EULER_OPERATORS (roy.h); this file adds the viscous / conductive operators.
 * Axisymmetric pair: coordinates (r, z[, t]) are carried in the jet slots (x, z, t); the cylindrical divergence of a
 * vector (F, G) is written F_r + F*inv(r) + G_z, div of a symmetric tensor has the extra hoop term -tau_qq/r in the
 * radial component (no swirl).  inv(r) appears only linearly/polynomially: r*inv(r)=1 is never needed.
 */
#include "roy.h"

/* temperature jet TT = P / (RHO R).  The reciprocal jet has two equal renderings (lib/jets.h: JINV over the common
 * denominator, JINV_PLAIN term by term; equal for RHO != 0).  The rendering is chosen per unit to match the way the
 * Maple output of that class groups the rho^-2 / rho^-3 terms (proof search only; measured: 2-D energy 53 s with JINV,
 * 7 s with JINV_PLAIN; 3-D energy needs JINV). */
#if defined(CNS_JINV)
/* rendering forced by the unit's defines (experiments) */
#elif defined(UNIT_navierstokes_3d_compressible)
#define CNS_JINV JINV
#else
#define CNS_JINV JINV_PLAIN
#endif
#define NS_TEMPERATURE CNS_JINV(IRHO_, RHO); JMUL(PIR_, P, IRHO_); JSCALE(TT, vinv(R), PIR_)

/* Cartesian viscous operators on jets U,V,W (absent components: JCONST 0) and TT; mu,k from scope.
 * Only value and first derivatives of the stresses are needed; they are written from the jets' 1st/2nd derivatives. */
#define NS_VISCOUS_CART \
  Sc c23_ = LIT(2, 3); \
  Sc dv_ = U_x + V_y + W_z, dv_x_ = U_xx + V_xy + W_xz, dv_y_ = U_xy + V_yy + W_yz, dv_z_ = U_xz + V_yz + W_zz; \
  Sc txx_ = 2 * mu * U_x - c23_ * mu * dv_, tyy_ = 2 * mu * V_y - c23_ * mu * dv_, tzz_ = 2 * mu * W_z - c23_ * mu * dv_; \
  Sc txy_ = mu * (U_y + V_x), txz_ = mu * (U_z + W_x), tyz_ = mu * (V_z + W_y); \
  Sc txx_x_ = 2 * mu * U_xx - c23_ * mu * dv_x_, tyy_y_ = 2 * mu * V_yy - c23_ * mu * dv_y_, tzz_z_ = 2 * mu * W_zz - c23_ * mu * dv_z_; \
  Sc txy_x_ = mu * (U_xy + V_xx), txy_y_ = mu * (U_yy + V_xy); \
  Sc txz_x_ = mu * (U_xz + W_xx), txz_z_ = mu * (U_zz + W_xz); \
  Sc tyz_y_ = mu * (V_yz + W_yy), tyz_z_ = mu * (V_zz + W_yz); \
  Sc vis_x_ = txx_x_ + txy_y_ + txz_z_; \
  Sc vis_y_ = txy_x_ + tyy_y_ + tyz_z_; \
  Sc vis_z_ = txz_x_ + tyz_y_ + tzz_z_

/* div(tau . u) and div(q), Cartesian */
#define NS_ENERGY_CART \
  Sc dtu_ = (txx_x_ * U_v + txx_ * U_x + txy_x_ * V_v + txy_ * V_x + txz_x_ * W_v + txz_ * W_x) \
          + (txy_y_ * U_v + txy_ * U_y + tyy_y_ * V_v + tyy_ * V_y + tyz_y_ * W_v + tyz_ * W_y) \
          + (txz_z_ * U_v + txz_ * U_z + tyz_z_ * V_v + tyz_ * V_z + tzz_z_ * W_v + tzz_ * W_z); \
  Sc divq_ = -k * (TT_xx + TT_yy + TT_zz)

#define NS_OPS_CART \
  EULER_OPERATORS; NS_VISCOUS_CART; \
  Sc ns_mass = op_mass; \
  Sc ns_xmom = op_xmom - vis_x_; \
  Sc ns_ymom = op_ymom - vis_y_; \
  Sc ns_zmom = op_zmom - vis_z_
#define NS_OPS_CART_ENERGY \
  NS_OPS_CART; NS_TEMPERATURE; NS_ENERGY_CART; \
  Sc ns_energy = op_energy + divq_ - dtu_

/* Axisymmetric (no swirl): jets in (x = r, z, t), V = 0; ri_ = 1/r.
 *   div u = U_r + U/r + W_z
 *   tau_rr = 2 mu U_r - 2/3 mu div u,  tau_qq = 2 mu U/r - 2/3 mu div u,  tau_zz = 2 mu W_z - 2/3 mu div u,  tau_rz = mu (U_z + W_r)
 *   (div tau)_r = (tau_rr)_r + tau_rr/r + (tau_rz)_z - tau_qq/r,     (div tau)_z = (tau_rz)_r + tau_rz/r + (tau_zz)_z
 *   d/dr (U/r) = U_r/r - U/r^2 */
#define NS_VISCOUS_AXI \
  Sc ri_ = vinv(r); Sc c23_ = LIT(2, 3); \
  Sc dv_ = U_x + U_v * ri_ + W_z; \
  Sc dv_r_ = U_xx + U_x * ri_ - U_v * ri_ * ri_ + W_xz; \
  Sc dv_z_ = U_xz + U_z * ri_ + W_zz; \
  Sc trr_ = 2 * mu * U_x - c23_ * mu * dv_, tqq_ = 2 * mu * U_v * ri_ - c23_ * mu * dv_, tzz_ = 2 * mu * W_z - c23_ * mu * dv_; \
  Sc trz_ = mu * (U_z + W_x); \
  Sc trr_r_ = 2 * mu * U_xx - c23_ * mu * dv_r_, tzz_z_ = 2 * mu * W_zz - c23_ * mu * dv_z_; \
  Sc trz_r_ = mu * (U_xz + W_xx), trz_z_ = mu * (U_zz + W_xz); \
  Sc vis_r_ = trr_r_ + trr_ * ri_ + trz_z_ - tqq_ * ri_; \
  Sc vis_z_ = trz_r_ + trz_ * ri_ + tzz_z_

#define NS_ENERGY_AXI \
  Sc fr_ = trr_ * U_v + trz_ * W_v;  /* (tau . u)_r */ \
  Sc fr_r_ = trr_r_ * U_v + trr_ * U_x + trz_r_ * W_v + trz_ * W_x; \
  Sc fz_z_ = trz_z_ * U_v + trz_ * U_z + tzz_z_ * W_v + tzz_ * W_z; \
  Sc dtu_ = fr_r_ + fr_ * ri_ + fz_z_; \
  Sc divq_ = -k * (TT_xx + TT_x * ri_ + TT_zz)

#define NS_OPS_AXI \
  EULER_OPERATORS; NS_VISCOUS_AXI; \
  Sc ns_mass = op_mass + RU__v * ri_; \
  Sc ns_rmom = op_xmom + RUU__v * ri_ - vis_r_; \
  Sc ns_zmom = op_zmom + RUW__v * ri_ - vis_z_
#define NS_OPS_AXI_ENERGY \
  NS_OPS_AXI; NS_TEMPERATURE; NS_ENERGY_AXI; \
  Sc ns_energy = op_energy + UH__v * ri_ + divq_ - dtu_

#if defined(CNS_DIAG_AXI_AS_CODED)
/* ---- DIAGNOSTIC ONLY -- never defined by ./check C03 (see run_diag in vf/p_c03.py) --------------------------------
 * NOT a contract and NOT the Navier-Stokes equations: a rendering of what src/axi_cns.cpp and src/axi_cns_transient.cpp
 * were found to compute, kept so that the reported defect can be re-characterised mechanically:
 *   (1) tau_rz = mu u_z            (the dw/dr half of the shear stress is missing everywhere),
 *   (2) (div tau)_r has no hoop term -tau_qq/r,
 *   (3) axi_cns::eval_q_rho_e only (DIAG_WORK_SIGN = -1): viscous work enters as +div(tau.u) instead of -div(tau.u).
 * With these three changes all six failing sources are discharged (5-25 s), which pins the defect down exactly. */
#undef NS_VISCOUS_AXI
#define NS_VISCOUS_AXI \
  Sc ri_ = vinv(r); Sc c23_ = LIT(2, 3); \
  Sc dv_ = U_x + U_v * ri_ + W_z; \
  Sc dv_r_ = U_xx + U_x * ri_ - U_v * ri_ * ri_ + W_xz; \
  Sc dv_z_ = U_xz + U_z * ri_ + W_zz; \
  Sc trr_ = 2 * mu * U_x - c23_ * mu * dv_, tzz_ = 2 * mu * W_z - c23_ * mu * dv_; \
  Sc trz_ = mu * U_z; \
  Sc trr_r_ = 2 * mu * U_xx - c23_ * mu * dv_r_, tzz_z_ = 2 * mu * W_zz - c23_ * mu * dv_z_; \
  Sc trz_r_ = mu * U_xz, trz_z_ = mu * U_zz; \
  Sc vis_r_ = trr_r_ + trr_ * ri_ + trz_z_; \
  Sc vis_z_ = trz_r_ + trz_ * ri_ + tzz_z_
#undef NS_OPS_AXI_ENERGY
#define NS_OPS_AXI_ENERGY \
  NS_OPS_AXI; NS_TEMPERATURE; NS_ENERGY_AXI; \
  Sc ns_energy = op_energy + UH__v * ri_ + divq_ - (DIAG_WORK_SIGN) * dtu_
#endif

/* ============================== navierstokes_2d_compressible ============================== */
#if defined(UNIT_navierstokes_2d_compressible)
#define NS2_FIELDS \
  Sc z = 0, t = 0; \
  ROY_X(rx, JSIN, rho_x, a_rhox); ROY_Y(ry, JCOS, rho_y, a_rhoy); JSUM3(RHO, rho_0, rx, ry); \
  ROY_X(ux, JSIN, u_x, a_ux);     ROY_Y(uy, JCOS, u_y, a_uy);     JSUM3(U, u_0, ux, uy); \
  ROY_X(vx, JCOS, v_x, a_vx);     ROY_Y(vy, JSIN, v_y, a_vy);     JSUM3(V, v_0, vx, vy); \
  ROY_X(px, JCOS, p_x, a_px);     ROY_Y(py, JSIN, p_y, a_py);     JSUM3(P, p_0, px, py); \
  JCONST(W, 0)
static Sc ns2_exact_rho(Sc x, Sc y) { NS2_FIELDS; return RHO_v; }
static Sc ns2_exact_u(Sc x, Sc y) { NS2_FIELDS; return U_v; }
static Sc ns2_exact_v(Sc x, Sc y) { NS2_FIELDS; return V_v; }
static Sc ns2_exact_p(Sc x, Sc y) { NS2_FIELDS; return P_v; }
static Sc ns2_g_rho(Sc x, Sc y, int i) { NS2_FIELDS; Sc m1 = -1; return i == 1 ? RHO_x : i == 2 ? RHO_y : m1; }
static Sc ns2_g_u(Sc x, Sc y, int i) { NS2_FIELDS; Sc m1 = -1; return i == 1 ? U_x : i == 2 ? U_y : m1; }
static Sc ns2_g_v(Sc x, Sc y, int i) { NS2_FIELDS; Sc m1 = -1; return i == 1 ? V_x : i == 2 ? V_y : m1; }
static Sc ns2_g_p(Sc x, Sc y, int i) { NS2_FIELDS; Sc m1 = -1; return i == 1 ? P_x : i == 2 ? P_y : m1; }
static Sc ns2_q_rho(Sc x, Sc y) { NS2_FIELDS; NS_OPS_CART; return ns_mass; }
static Sc ns2_q_rho_u(Sc x, Sc y) { NS2_FIELDS; NS_OPS_CART; return ns_xmom; }
static Sc ns2_q_rho_v(Sc x, Sc y) { NS2_FIELDS; NS_OPS_CART; return ns_ymom; }
static Sc ns2_q_rho_e(Sc x, Sc y) { NS2_FIELDS; NS_OPS_CART_ENERGY; return ns_energy; }
#define NS2REQ  REQ(VF_PI_OK && L != 0)
#define NS2REQE REQ(VF_PI_OK && L != 0 && Gamma != 1 && R != 0)
#define CONTRACT_navierstokes_2d_compressible__eval_exact_rho_2 NS2REQ ENS_EQ(ns2_exact_rho(x, y)) FRAME()
#define CONTRACT_navierstokes_2d_compressible__eval_exact_u_2   NS2REQ ENS_EQ(ns2_exact_u(x, y)) FRAME()
#define CONTRACT_navierstokes_2d_compressible__eval_exact_v_2   NS2REQ ENS_EQ(ns2_exact_v(x, y)) FRAME()
#define CONTRACT_navierstokes_2d_compressible__eval_exact_p_2   NS2REQ ENS_EQ(ns2_exact_p(x, y)) FRAME()
#define CONTRACT_navierstokes_2d_compressible__eval_g_rho_3     NS2REQ ENS_EQ(ns2_g_rho(x, y, i)) FRAME(ghost_msg)
#define CONTRACT_navierstokes_2d_compressible__eval_g_u_3       NS2REQ ENS_EQ(ns2_g_u(x, y, i)) FRAME(ghost_msg)
#define CONTRACT_navierstokes_2d_compressible__eval_g_v_3       NS2REQ ENS_EQ(ns2_g_v(x, y, i)) FRAME(ghost_msg)
#define CONTRACT_navierstokes_2d_compressible__eval_g_p_3       NS2REQ ENS_EQ(ns2_g_p(x, y, i)) FRAME(ghost_msg)
#define CONTRACT_navierstokes_2d_compressible__eval_q_rho_2     NS2REQ ENS_EQ(ns2_q_rho(x, y)) FRAME()
#define CONTRACT_navierstokes_2d_compressible__eval_q_rho_u_2   NS2REQ ENS_EQ(ns2_q_rho_u(x, y)) FRAME()
#define CONTRACT_navierstokes_2d_compressible__eval_q_rho_v_2   NS2REQ ENS_EQ(ns2_q_rho_v(x, y)) FRAME()
#define CONTRACT_navierstokes_2d_compressible__eval_q_rho_e_2   NS2REQE ENS_EQ(ns2_q_rho_e(x, y)) FRAME()
#endif

/* ============================== navierstokes_3d_compressible ============================== */
#if defined(UNIT_navierstokes_3d_compressible)
#define NS3_FIELDS \
  Sc t = 0; \
  ROY_X(rx, JSIN, rho_x, a_rhox); ROY_Y(ry, JCOS, rho_y, a_rhoy); ROY_Z(rz, JSIN, rho_z, a_rhoz); JSUM4(RHO, rho_0, rx, ry, rz); \
  ROY_X(ux, JSIN, u_x, a_ux);     ROY_Y(uy, JCOS, u_y, a_uy);     ROY_Z(uz, JCOS, u_z, a_uz);     JSUM4(U, u_0, ux, uy, uz); \
  ROY_X(vx, JCOS, v_x, a_vx);     ROY_Y(vy, JSIN, v_y, a_vy);     ROY_Z(vz, JSIN, v_z, a_vz);     JSUM4(V, v_0, vx, vy, vz); \
  ROY_X(wx, JSIN, w_x, a_wx);     ROY_Y(wy, JSIN, w_y, a_wy);     ROY_Z(wz, JCOS, w_z, a_wz);     JSUM4(W, w_0, wx, wy, wz); \
  ROY_X(px, JCOS, p_x, a_px);     ROY_Y(py, JSIN, p_y, a_py);     ROY_Z(pz, JCOS, p_z, a_pz);     JSUM4(P, p_0, px, py, pz)
static Sc ns3_exact_rho(Sc x, Sc y, Sc z) { NS3_FIELDS; return RHO_v; }
static Sc ns3_exact_u(Sc x, Sc y, Sc z) { NS3_FIELDS; return U_v; }
static Sc ns3_exact_v(Sc x, Sc y, Sc z) { NS3_FIELDS; return V_v; }
static Sc ns3_exact_w(Sc x, Sc y, Sc z) { NS3_FIELDS; return W_v; }
static Sc ns3_exact_p(Sc x, Sc y, Sc z) { NS3_FIELDS; return P_v; }
static Sc ns3_g_rho(Sc x, Sc y, Sc z, int i) { NS3_FIELDS; Sc m1 = -1; return i == 1 ? RHO_x : i == 2 ? RHO_y : i == 3 ? RHO_z : m1; }
static Sc ns3_g_u(Sc x, Sc y, Sc z, int i) { NS3_FIELDS; Sc m1 = -1; return i == 1 ? U_x : i == 2 ? U_y : i == 3 ? U_z : m1; }
static Sc ns3_g_v(Sc x, Sc y, Sc z, int i) { NS3_FIELDS; Sc m1 = -1; return i == 1 ? V_x : i == 2 ? V_y : i == 3 ? V_z : m1; }
static Sc ns3_g_w(Sc x, Sc y, Sc z, int i) { NS3_FIELDS; Sc m1 = -1; return i == 1 ? W_x : i == 2 ? W_y : i == 3 ? W_z : m1; }
static Sc ns3_g_p(Sc x, Sc y, Sc z, int i) { NS3_FIELDS; Sc m1 = -1; return i == 1 ? P_x : i == 2 ? P_y : i == 3 ? P_z : m1; }
static Sc ns3_q_rho(Sc x, Sc y, Sc z) { NS3_FIELDS; NS_OPS_CART; return ns_mass; }
static Sc ns3_q_rho_u(Sc x, Sc y, Sc z) { NS3_FIELDS; NS_OPS_CART; return ns_xmom; }
static Sc ns3_q_rho_v(Sc x, Sc y, Sc z) { NS3_FIELDS; NS_OPS_CART; return ns_ymom; }
static Sc ns3_q_rho_w(Sc x, Sc y, Sc z) { NS3_FIELDS; NS_OPS_CART; return ns_zmom; }
static Sc ns3_q_rho_e(Sc x, Sc y, Sc z) { NS3_FIELDS; NS_OPS_CART_ENERGY; return ns_energy; }
#define NS3REQ  REQ(VF_PI_OK && L != 0)
#define NS3REQE REQ(VF_PI_OK && L != 0 && Gamma != 1 && R != 0)
#define CONTRACT_navierstokes_3d_compressible__eval_exact_rho_3 NS3REQ ENS_EQ(ns3_exact_rho(x, y, z)) FRAME()
#define CONTRACT_navierstokes_3d_compressible__eval_exact_u_3   NS3REQ ENS_EQ(ns3_exact_u(x, y, z)) FRAME()
#define CONTRACT_navierstokes_3d_compressible__eval_exact_v_3   NS3REQ ENS_EQ(ns3_exact_v(x, y, z)) FRAME()
#define CONTRACT_navierstokes_3d_compressible__eval_exact_w_3   NS3REQ ENS_EQ(ns3_exact_w(x, y, z)) FRAME()
#define CONTRACT_navierstokes_3d_compressible__eval_exact_p_3   NS3REQ ENS_EQ(ns3_exact_p(x, y, z)) FRAME()
#define CONTRACT_navierstokes_3d_compressible__eval_g_rho_4     NS3REQ ENS_EQ(ns3_g_rho(x, y, z, i)) FRAME(ghost_msg)
#define CONTRACT_navierstokes_3d_compressible__eval_g_u_4       NS3REQ ENS_EQ(ns3_g_u(x, y, z, i)) FRAME(ghost_msg)
#define CONTRACT_navierstokes_3d_compressible__eval_g_v_4       NS3REQ ENS_EQ(ns3_g_v(x, y, z, i)) FRAME(ghost_msg)
#define CONTRACT_navierstokes_3d_compressible__eval_g_w_4       NS3REQ ENS_EQ(ns3_g_w(x, y, z, i)) FRAME(ghost_msg)
#define CONTRACT_navierstokes_3d_compressible__eval_g_p_4       NS3REQ ENS_EQ(ns3_g_p(x, y, z, i)) FRAME(ghost_msg)
#define CONTRACT_navierstokes_3d_compressible__eval_q_rho_3     NS3REQ ENS_EQ(ns3_q_rho(x, y, z)) FRAME()
#define CONTRACT_navierstokes_3d_compressible__eval_q_rho_u_3   NS3REQ ENS_EQ(ns3_q_rho_u(x, y, z)) FRAME()
#define CONTRACT_navierstokes_3d_compressible__eval_q_rho_v_3   NS3REQ ENS_EQ(ns3_q_rho_v(x, y, z)) FRAME()
#define CONTRACT_navierstokes_3d_compressible__eval_q_rho_w_3   NS3REQ ENS_EQ(ns3_q_rho_w(x, y, z)) FRAME()
#define CONTRACT_navierstokes_3d_compressible__eval_q_rho_e_3   NS3REQE ENS_EQ(ns3_q_rho_e(x, y, z)) FRAME()
#endif

/* ============================== axi_cns (axisymmetric_navierstokes_compressible) ============================== */
#if defined(UNIT_axi_cns)
/* u = u_1 (cos(a_ur pi r/L) - 1) sin(a_uz pi z/L),  w = w_0 + w_1 cos(a_wr pi r/L) sin(a_wz pi z/L),
 * p = p_0 + p_1 sin(a_pr pi r/L) cos(a_pz pi z/L),  rho = rho_0 + rho_1 cos(a_rhor pi r/L) sin(a_rhoz pi z/L) */
#define AXI_FIELDS \
  Sc x = r, y = 0, t = 0; \
  ROY_X(ur, JCOS, 1, a_ur);       JADDC(ur1, ur, -1); ROY_Z(uz, JSIN, u_1, a_uz); JMUL(U, ur1, uz); \
  ROY_X(wr, JCOS, w_1, a_wr);     ROY_Z(wz, JSIN, 1, a_wz);   JMUL(wrz, wr, wz); JADDC(W, wrz, w_0); \
  ROY_X(pr, JSIN, p_1, a_pr);     ROY_Z(pz, JCOS, 1, a_pz);   JMUL(prz, pr, pz); JADDC(P, prz, p_0); \
  ROY_X(rr, JCOS, rho_1, a_rhor); ROY_Z(rz, JSIN, 1, a_rhoz); JMUL(rrz, rr, rz); JADDC(RHO, rrz, rho_0); \
  JCONST(V, 0)
static Sc axi_exact_rho(Sc r, Sc z) { AXI_FIELDS; return RHO_v; }
static Sc axi_exact_u(Sc r, Sc z) { AXI_FIELDS; return U_v; }
static Sc axi_exact_w(Sc r, Sc z) { AXI_FIELDS; return W_v; }
static Sc axi_exact_p(Sc r, Sc z) { AXI_FIELDS; return P_v; }
static Sc axi_q_rho(Sc r, Sc z) { AXI_FIELDS; NS_OPS_AXI; return ns_mass; }
static Sc axi_q_rho_u(Sc r, Sc z) { AXI_FIELDS; NS_OPS_AXI; return ns_rmom; }
static Sc axi_q_rho_w(Sc r, Sc z) { AXI_FIELDS; NS_OPS_AXI; return ns_zmom; }
static Sc axi_q_rho_e(Sc r, Sc z) { AXI_FIELDS; NS_OPS_AXI_ENERGY; return ns_energy; }
#define AXIREQ  REQ(VF_PI_OK && L != 0 && r != 0)
#define AXIREQE REQ(VF_PI_OK && L != 0 && r != 0 && Gamma != 1 && R != 0)
#define CONTRACT_axi_cns__eval_exact_rho_2 REQ(VF_PI_OK && L != 0) ENS_EQ(axi_exact_rho(r, z)) FRAME()
#define CONTRACT_axi_cns__eval_exact_u_2   REQ(VF_PI_OK && L != 0) ENS_EQ(axi_exact_u(r, z)) FRAME()
#define CONTRACT_axi_cns__eval_exact_w_2   REQ(VF_PI_OK && L != 0) ENS_EQ(axi_exact_w(r, z)) FRAME()
#define CONTRACT_axi_cns__eval_exact_p_2   REQ(VF_PI_OK && L != 0) ENS_EQ(axi_exact_p(r, z)) FRAME()
#define CONTRACT_axi_cns__eval_q_rho_2     AXIREQ ENS_EQ(axi_q_rho(r, z)) FRAME()
#define CONTRACT_axi_cns__eval_q_rho_u_2   AXIREQ ENS_EQ(axi_q_rho_u(r, z)) FRAME()
#define CONTRACT_axi_cns__eval_q_rho_w_2   AXIREQ ENS_EQ(axi_q_rho_w(r, z)) FRAME()
#define CONTRACT_axi_cns__eval_q_rho_e_2   AXIREQE ENS_EQ(axi_q_rho_e(r, z)) FRAME()
#endif

/* ============================== axi_cns_transient ============================== */
#if defined(UNIT_axi_cns_transient)
/* rho = rho_0 + rho_r cos(a_rhor pi r/L) + rho_z sin(a_rhoz pi z/L) + rho_t sin(a_rhot pi t/L)
 * p   = p_0 + p_r sin(a_pr pi r/L) + p_z cos(a_pz pi z/L) + p_t cos(a_pt pi t/L)
 * u   = u_r (cos(a_ur pi r/L) - 1) (u_z sin(a_uz pi z/L) + u_t cos(a_ut pi t/L))
 * w   = w_0 + w_r cos(a_wr pi r/L) + w_z sin(a_wz pi z/L) + w_t cos(a_wt pi t/L) */
#define AXT_FIELDS \
  Sc x = r, y = 0; \
  ROY_X(rr, JCOS, rho_r, a_rhor); ROY_Z(rz, JSIN, rho_z, a_rhoz); ROY_T(rt, JSIN, rho_t, a_rhot); JSUM4(RHO, rho_0, rr, rz, rt); \
  ROY_X(pr, JSIN, p_r, a_pr);     ROY_Z(pz, JCOS, p_z, a_pz);     ROY_T(pt, JCOS, p_t, a_pt);     JSUM4(P, p_0, pr, pz, pt); \
  ROY_X(wr, JCOS, w_r, a_wr);     ROY_Z(wz, JSIN, w_z, a_wz);     ROY_T(wt, JCOS, w_t, a_wt);     JSUM4(W, w_0, wr, wz, wt); \
  ROY_X(ur, JCOS, u_r, a_ur);     JADDC(ur1, ur, -u_r); \
  ROY_Z(uz, JSIN, u_z, a_uz);     ROY_T(ut, JCOS, u_t, a_ut);     JADD(uzt, uz, ut); JMUL(U, ur1, uzt); \
  JCONST(V, 0)
static Sc axt_exact_rho(Sc r, Sc z, Sc t) { AXT_FIELDS; return RHO_v; }
static Sc axt_exact_u(Sc r, Sc z, Sc t) { AXT_FIELDS; return U_v; }
static Sc axt_exact_w(Sc r, Sc z, Sc t) { AXT_FIELDS; return W_v; }
static Sc axt_exact_p(Sc r, Sc z, Sc t) { AXT_FIELDS; return P_v; }
static Sc axt_q_rho(Sc r, Sc z, Sc t) { AXT_FIELDS; NS_OPS_AXI; return ns_mass; }
static Sc axt_q_u(Sc r, Sc z, Sc t) { AXT_FIELDS; NS_OPS_AXI; return ns_rmom; }
static Sc axt_q_w(Sc r, Sc z, Sc t) { AXT_FIELDS; NS_OPS_AXI; return ns_zmom; }
static Sc axt_q_e(Sc r, Sc z, Sc t) { AXT_FIELDS; NS_OPS_AXI_ENERGY; return ns_energy; }
#define AXTREQ  REQ(VF_PI_OK && L != 0 && r != 0)
#define AXTREQE REQ(VF_PI_OK && L != 0 && r != 0 && Gamma != 1 && R != 0)
#define CONTRACT_axi_cns_transient__eval_exact_rho_3 REQ(VF_PI_OK && L != 0) ENS_EQ(axt_exact_rho(r, z, t)) FRAME()
#define CONTRACT_axi_cns_transient__eval_exact_u_3   REQ(VF_PI_OK && L != 0) ENS_EQ(axt_exact_u(r, z, t)) FRAME()
#define CONTRACT_axi_cns_transient__eval_exact_w_3   REQ(VF_PI_OK && L != 0) ENS_EQ(axt_exact_w(r, z, t)) FRAME()
#define CONTRACT_axi_cns_transient__eval_exact_p_3   REQ(VF_PI_OK && L != 0) ENS_EQ(axt_exact_p(r, z, t)) FRAME()
#define CONTRACT_axi_cns_transient__eval_q_rho_3     AXTREQ ENS_EQ(axt_q_rho(r, z, t)) FRAME()
#define CONTRACT_axi_cns_transient__eval_q_u_3       AXTREQ ENS_EQ(axt_q_u(r, z, t)) FRAME()
#define CONTRACT_axi_cns_transient__eval_q_w_3       AXTREQ ENS_EQ(axt_q_w(r, z, t)) FRAME()
#define CONTRACT_axi_cns_transient__eval_q_e_3       AXTREQE ENS_EQ(axt_q_e(r, z, t)) FRAME()
#endif
