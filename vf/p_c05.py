"""C05 Spalart-Allmaras solutions: units and runner"""
import os
import xtract
from common import SRC
from numeric import Unit, run_numeric, replay_file

# functions the property covers that are NOT discharged deductively (left out of the CONTRACT_ macros on purpose,
# the contract is not weakened): (C name, reason).  The lead wires a bounded stand-in (DESIGN 3.4) for these.
BOUNDED = []


def _calls(cls, src):
    """cname -> member functions it calls (every such call is replaced by the callee's contract: modular proof)"""
    decl, funcs = xtract.extract_class(os.path.join(SRC, src), os.path.join(SRC, 'masa_internal.h'), cls)
    return {f.cname: sorted(set(f.calls)) for f in funcs if f.calls}


def units():
    us = []
    us.append(Unit('rans_sa', 'rans_sa.cpp', 'sa.spec.h', defines=['UNIT_rans_sa 1'], replace=_calls('rans_sa', 'rans_sa.cpp')))
    return us


def run(tier, seed):
    return run_numeric('C05', units(), tier, seed, design_ref='4/C05')

replay = replay_file
