"""C12 handle registry: contracts on get_list_mms / init_mms / select_mms / list_mms / ~MasterMS / masa_printid."""
import os, time
import regcheck
from common import *

def run(tier, seed):
    t0 = time.time()
    rep = Report('C12')
    d = scratch('c12')
    try:
        jobs, not_under, info, cat = regcheck.jobs_for(d, os.environ.get('VF_ONLY'))
    except regcheck.ExtractionBreak as e:
        rep.undecide('extraction break: %s' % e)
        write_evidence('C12', tier, seed, 'proof', {'evaluations': 0, 'distinct_nontrivial': 0, 'explanation': 'extraction break: %s' % e}, regcheck.TRUSTED_REG, time.time() - t0, 0)
        return rep.finish()
    results = regcheck.run_jobs(d, jobs, tier)
    n_dis, per_fn, samples = regcheck.account(rep, results, info)
    cov = {'obligations': n_dis + len(rep.violations) + len(rep.undecided), 'discharged': n_dis,   # obligations that fail as recorded known findings are counted under known_finding_obligations only
          
           'checker_cmd': results[0][1].cmd if results else 'n/a', 'trusted_base': regcheck.TRUSTED_REG,
           'functions_under_contract': [j[0] for j, r in results], 'functions_not_under_contract': not_under,
           'per_function': per_fn, 'extraction': info, 'catalogue': cat, 'bounded': [], 'samples': samples or [{'note': 'nothing discharged'}],
           'explanation': 'registry invariant REG_WF (every handle owns a live object, distinct handles own distinct objects, no other live object) is assumed and '
                          're-established by init_mms/select_mms; init_mms: match -> fresh object of the class whose name equals masa_map(name) is mapped to the handle '
                          'and selected, every other handle untouched (frame); no match -> fatal, nothing registered; select_mms: known handle selected / unknown fatal, '
                          'nothing else changes. The two precisions are two instances of this unit with disjoint state (template instantiation). '
                          'Parameter isolation between handles = object distinctness here + the per-object store frames of C11.'}
    write_evidence('C12', tier, seed, 'proof', cov, regcheck.TRUSTED_REG, time.time() - t0, len(rep.violations))
    print('C12: %d functions under contract, %d obligations discharged, %d violations, %d undecided, %d known (%.1fs)' % (
        len(results), n_dis, len(rep.violations), len(rep.undecided), len(rep.known_hits), time.time() - t0))
    return rep.finish()

replay = regcheck.replay
