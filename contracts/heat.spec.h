/* heat.spec.h -- contracts for the twelve heateq_* classes (property C01).
 *
 * Oracle = the property statement: source == rho*cp(T)*T_t - div(k(T) grad T) on
 *   T = cos(A_x x + A_t t) cos(B_y y + B_t t) cos(C_z z + C_t t) cos(D_t t)
 * restricted to the class's dimension (factors of absent coordinates are absent) and
 * steadiness (steady: no A_t,B_t,C_t, no cos(D_t t) factor, no storage term),
 * k(T) = k_0 + k_1 T + k_2 T^2, cp(T) = cp_0 + cp_1 T + cp_2 T^2 (constant classes: k_0, cp_0 only).
 * The unit defines HEAT_DIM (1..3), HEAT_UNSTEADY (0/1), HEAT_VAR (0/1), HEAT_CLS.
 */
#if !HEAT_UNSTEADY
#define HEAT_At 0
#define HEAT_Bt 0
#define HEAT_Ct 0
#else
#define HEAT_At A_t
#define HEAT_Bt B_t
#define HEAT_Ct C_t
#endif

/* the documented temperature jet, named TT, from point (x,y,z,t) */
#if HEAT_DIM == 1
#define HEAT_FIELD_SPACE JLIN(th1, A_x * x + HEAT_At * t, A_x, 0, 0, HEAT_At); JCOS(c1, th1); JCONST(one_, 1); JMUL(S_, c1, one_)
#elif HEAT_DIM == 2
#define HEAT_FIELD_SPACE JLIN(th1, A_x * x + HEAT_At * t, A_x, 0, 0, HEAT_At); JCOS(c1, th1); \
                         JLIN(th2, B_y * y + HEAT_Bt * t, 0, B_y, 0, HEAT_Bt); JCOS(c2, th2); JMUL(S_, c1, c2)
#else
#define HEAT_FIELD_SPACE JLIN(th1, A_x * x + HEAT_At * t, A_x, 0, 0, HEAT_At); JCOS(c1, th1); \
                         JLIN(th2, B_y * y + HEAT_Bt * t, 0, B_y, 0, HEAT_Bt); JCOS(c2, th2); \
                         JLIN(th3, C_z * z + HEAT_Ct * t, 0, 0, C_z, HEAT_Ct); JCOS(c3, th3); \
                         JMUL(S12_, c1, c2); JMUL(S_, S12_, c3)
#endif
#if HEAT_UNSTEADY
#define HEAT_FIELD HEAT_FIELD_SPACE; JLIN(th4, D_t * t, 0, 0, 0, D_t); JCOS(c4, th4); JMUL(TT, S_, c4)
#else
#define HEAT_FIELD HEAT_FIELD_SPACE; JCONST(one4_, 1); JMUL(TT, S_, one4_)
#endif

static Sc heat_spec_exact(Sc x, Sc y, Sc z, Sc t)
{
  HEAT_FIELD;
  return TT_v;
}

static Sc heat_spec_q(Sc x, Sc y, Sc z, Sc t)
{
  HEAT_FIELD;
#if HEAT_VAR
  JMUL(TT2, TT, TT);
  JSCALE(K1_, k_1, TT); JSCALE(K2_, k_2, TT2); JADD(K12_, K1_, K2_); JADDC(KK, K12_, k_0);
#else
  JCONST(KK, k_0);
#endif
  /* conductive flux components k(T) T_x etc. are products of jets; only their own-direction derivative is needed */
  Sc div = (KK_x * TT_x + KK_v * TT_xx) + (KK_y * TT_y + KK_v * TT_yy) + (KK_z * TT_z + KK_v * TT_zz);
#if HEAT_UNSTEADY
#if HEAT_VAR
  Sc cp = cp_0 + cp_1 * TT_v + cp_2 * TT_v * TT_v;
#else
  Sc cp = cp_0;
#endif
  return rho * cp * TT_t - div;
#else
  return -div;
#endif
}

/* ---- contracts: one per evaluator overload of the class of this unit ---- */
#define HC_(cls, f) cls##__##f
#define HC(cls, f) HC_(cls, f)

#if HEAT_DIM == 1 && !HEAT_UNSTEADY
#define CONTRACT_Q   REQ(1) ENS_EQ(heat_spec_q(x, 0, 0, 0)) FRAME()
#define CONTRACT_EX  REQ(1) ENS_EQ(heat_spec_exact(x, 0, 0, 0)) FRAME()
#elif HEAT_DIM == 2 && !HEAT_UNSTEADY
#define CONTRACT_Q   REQ(1) ENS_EQ(heat_spec_q(x, y, 0, 0)) FRAME()
#define CONTRACT_EX  REQ(1) ENS_EQ(heat_spec_exact(x, y, 0, 0)) FRAME()
#elif HEAT_DIM == 3 && !HEAT_UNSTEADY
#define CONTRACT_Q   REQ(1) ENS_EQ(heat_spec_q(x, y, z, 0)) FRAME()
#define CONTRACT_EX  REQ(1) ENS_EQ(heat_spec_exact(x, y, z, 0)) FRAME()
#elif HEAT_DIM == 1
#define CONTRACT_Q   REQ(1) ENS_EQ(heat_spec_q(x, 0, 0, t)) FRAME()
#define CONTRACT_EX  REQ(1) ENS_EQ(heat_spec_exact(x, 0, 0, t)) FRAME()
#elif HEAT_DIM == 2
#define CONTRACT_Q   REQ(1) ENS_EQ(heat_spec_q(x, y, 0, t)) FRAME()
#define CONTRACT_EX  REQ(1) ENS_EQ(heat_spec_exact(x, y, 0, t)) FRAME()
#else
#define CONTRACT_Q   REQ(1) ENS_EQ(heat_spec_q(x, y, z, t)) FRAME()
#define CONTRACT_EX  REQ(1) ENS_EQ(heat_spec_exact(x, y, z, t)) FRAME()
#endif

#define CONTRACT_heateq_1d_steady_const__eval_q_t_1      CONTRACT_Q
#define CONTRACT_heateq_1d_steady_const__eval_exact_t_1  CONTRACT_EX
#define CONTRACT_heateq_2d_steady_const__eval_q_t_2      CONTRACT_Q
#define CONTRACT_heateq_2d_steady_const__eval_exact_t_2  CONTRACT_EX
#define CONTRACT_heateq_3d_steady_const__eval_q_t_3      CONTRACT_Q
#define CONTRACT_heateq_3d_steady_const__eval_exact_t_3  CONTRACT_EX
#define CONTRACT_heateq_1d_unsteady_const__eval_q_t_2    CONTRACT_Q
#define CONTRACT_heateq_2d_unsteady_const__eval_q_t_3    CONTRACT_Q
#define CONTRACT_heateq_2d_unsteady_const__eval_exact_t_3 CONTRACT_EX
#define CONTRACT_heateq_3d_unsteady_const__eval_q_t_4    CONTRACT_Q
#define CONTRACT_heateq_1d_unsteady_var__eval_q_t_2      CONTRACT_Q
#define CONTRACT_heateq_2d_unsteady_var__eval_q_t_3      CONTRACT_Q
#define CONTRACT_heateq_3d_unsteady_var__eval_q_t_4      CONTRACT_Q
#define CONTRACT_heateq_1d_steady_var__eval_q_t_1        CONTRACT_Q
#define CONTRACT_heateq_2d_steady_var__eval_q_t_2        CONTRACT_Q
#define CONTRACT_heateq_3d_steady_var__eval_q_t_3        CONTRACT_Q
