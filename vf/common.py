"""common.py -- shared plumbing: scratch dirs, process running under limits, CBMC result parsing,
evidence writing, known-findings handling, exit codes."""
import os, sys, re, json, time, shutil, subprocess, tempfile, resource, signal, atexit

VERIF = os.path.dirname(os.path.dirname(os.path.abspath(__file__)))
REPO = os.environ.get('VF_REPO', '/repo')
SRC = os.path.join(REPO, 'src')
LIB = os.path.join(VERIF, 'lib')
CONTRACTS = os.path.join(VERIF, 'contracts')
# VF_OUT: write evidence/ and replay/ somewhere else (used only when the checks are pointed at a scratch copy of the repository with VF_REPO, e.g. for seeded changes)
EVIDENCE = os.path.join(os.environ.get('VF_OUT', VERIF), 'evidence')
REPLAY = os.path.join(os.environ.get('VF_OUT', VERIF), 'replay')
KNOWN = os.path.join(VERIF, 'KNOWN_FINDINGS.txt')
NCPU = int(os.environ.get('VF_JOBS', str(os.cpu_count() or 4)))
MEM_KB = 8 * 1024 * 1024

EXIT_OK, EXIT_VIOLATION, EXIT_UNDECIDED = 0, 1, 2

_scratch = []


def scratch(prefix='vf'):
    base = os.environ.get('TMPDIR') or '/var/tmp'
    d = tempfile.mkdtemp(prefix=prefix + '-', dir=base)
    _scratch.append(d)
    return d


def _cleanup():
    if os.environ.get('VF_KEEP'):
        sys.stderr.write('VF_KEEP: scratch kept: %s\n' % ' '.join(_scratch))
        return
    for d in _scratch:
        shutil.rmtree(d, ignore_errors=True)


atexit.register(_cleanup)


def _limits():
    resource.setrlimit(resource.RLIMIT_AS, (MEM_KB * 1024, MEM_KB * 1024))
    os.setsid()


def run(cmd, cwd=None, timeout=60, env=None, stdin=None):
    """run cmd (list) under timeout + address-space limit; returns (rc, stdout+stderr, seconds, timed_out)"""
    t0 = time.time()
    try:
        p = subprocess.Popen(cmd, cwd=cwd, stdout=subprocess.PIPE, stderr=subprocess.STDOUT, env=env,
                             preexec_fn=_limits, stdin=subprocess.DEVNULL if stdin is None else stdin)
    except OSError as e:
        return 127, str(e), 0.0, False
    try:
        out, _ = p.communicate(timeout=timeout)
        to = False
    except subprocess.TimeoutExpired:
        try:
            os.killpg(p.pid, signal.SIGKILL)
        except OSError:
            pass
        out, _ = p.communicate()
        to = True
    return p.returncode, out.decode('utf-8', 'replace'), time.time() - t0, to


RES_RE = re.compile(r'^\[(?P<id>[^\]]+)\] (?P<desc>.*): (?P<st>SUCCESS|FAILURE|ERROR|UNKNOWN)$', re.M)
BAD_LOG = ('ignoring', 'no body for function', 'not declared', 'Parse Error', 'SMT2 solver returned error')


def parse_cbmc(out):
    """-> list of (id, desc, status)"""
    return [(m.group('id'), m.group('desc'), m.group('st')) for m in RES_RE.finditer(out)]


def z3new_env():
    """environment where `z3` resolves to z3-new (5.x), for `cbmc --z3`"""
    d = scratch('z3shim')
    tgt = shutil.which('z3-new')
    if not tgt:
        return None
    os.symlink(tgt, os.path.join(d, 'z3'))
    env = dict(os.environ)
    env['PATH'] = d + os.pathsep + env.get('PATH', '')
    return env


# ---------------------------------------------------------------- known findings

def load_known():
    """KNOWN_FINDINGS.txt lines:
         known: property=<id> key=<obligation-key> <text>
         fixed: property=<id> <commit> <text>          (suppresses nothing)
    -> {(prop, key): text}"""
    res = {}
    if not os.path.exists(KNOWN):
        return res
    for ln in open(KNOWN):
        ln = ln.strip()
        if not ln or ln.startswith('#') or ln.startswith('fixed:'):
            continue
        m = re.match(r'^known:\s+property=(\S+)\s+key=(\S+)\s+(?:sha=([0-9a-f]{64})\s+)?(.*)$', ln)
        if m:
            res[(m.group(1), m.group(2))] = m.group(4)
            if m.group(3):
                KNOWN_SHA[(m.group(1), m.group(2))] = m.group(3)
    return res


# sha256 of the source body of the function a finding was recorded for: the entry suppresses the failing obligation only while that body is
# byte-identical; any later change to the function is reported again as a violation (a different violation must not hide behind the finding)
KNOWN_SHA = {}


# ---------------------------------------------------------------- evidence

def write_evidence(prop, tier, seed, level, coverage, assumptions, wall_s, violations, extra=None):
    os.makedirs(EVIDENCE, exist_ok=True)
    ev = {'property_id': prop, 'tier': tier, 'seed': int(seed), 'level': level, 'coverage': coverage,
          'assumptions': assumptions, 'wall_s': round(wall_s, 2), 'violations': int(violations)}
    if extra:
        ev.update(extra)
    p = os.path.join(EVIDENCE, prop + '.json')
    tmp = p + '.tmp'
    with open(tmp, 'w') as f:
        json.dump(ev, f, indent=1, sort_keys=False)
    os.replace(tmp, p)
    return p


def write_replay(prop, key, payload):
    os.makedirs(REPLAY, exist_ok=True)
    safe = re.sub(r'[^A-Za-z0-9_.-]+', '_', key)[:120]
    p = os.path.join(REPLAY, '%s-%s.json' % (prop, safe))
    with open(p, 'w') as f:
        json.dump(payload, f, indent=1)
    return p


class Report:
    """accumulates the verdict of one check run and prints the interface lines"""

    def __init__(self, prop):
        self.prop = prop
        self.violations = []     # (key, replay_path, no_input)
        self.known_hits = []     # (key, text)
        self.undecided = []      # text
        self.known = load_known()

    def is_known(self, key, sha=None):
        if (self.prop, key) not in self.known:
            return False
        rec = KNOWN_SHA.get((self.prop, key))
        return not (rec and sha and rec != sha)

    def violation(self, key, payload, no_input=False):
        if self.is_known(key, payload.get('source_sha256')):
            self.known_hits.append((key, self.known[(self.prop, key)]))
            return False
        payload = dict(payload)
        if (self.prop, key) in self.known:
            payload['note'] = ('KNOWN_FINDINGS.txt lists this obligation, but for another version of the function body (recorded sha256 %s, now %s): '
                               'the function has changed since the finding was recorded, so the failure is reported again' % (
                                   KNOWN_SHA.get((self.prop, key)), payload.get('source_sha256')))
        payload.setdefault('property', self.prop)
        payload.setdefault('obligation', key)
        path = write_replay(self.prop, key, payload)
        self.violations.append((key, path, no_input))
        return True

    def undecide(self, text):
        self.undecided.append(text)

    def finish(self):
        for key, text in self.known_hits:
            print('KNOWN-FINDING: property=%s %s [%s]' % (self.prop, text, key))
        for key, path, no_input in self.violations:
            print('VIOLATION property=%s replay=%s%s' % (self.prop, path, ' no-failing-input-found' if no_input else ''))
        for u in self.undecided:
            print('UNDECIDED property=%s %s' % (self.prop, u))
        sys.stdout.flush()
        if self.violations:
            return EXIT_VIOLATION
        if self.undecided:
            return EXIT_UNDECIDED
        return EXIT_OK
