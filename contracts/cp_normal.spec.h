/* cp_normal.spec.h -- contracts for cp_normal (property C08, conjugate-normal posterior; smasa).
 * Textbook: prior N(m, sigma^2); data x_1..x_n iid N(theta, sigma_d^2); xbar = mean of the CURRENT data vector;
 *   posterior N(mp, sp2),  sp2 = 1/(1/sigma^2 + n/sigma_d^2),  mp = sp2 (m/sigma^2 + n xbar/sigma_d^2);
 *   likelihood (as a function of theta, up to its constant) exp(-n (theta - xbar)^2 / (2 sigma_d^2)), loglikelihood its exponent;
 *   central moments of N(.,sigma^2): 0 for odd k, sigma^k (k-1)!! for even k.
 * A density f is the normalised normal density iff f(x) sqrt(2 pi s2) == exp(-(x-mean)^2/(2 s2)) (stated in that product form so that
 * no a*inv(a) cancellation is needed).  The data vector is a ghost array of capacity VF_VECMAX = 8 (loops unwound to that bound). */
static Sc cp_xbar(void)
{
  Sc s = 0;
  for (int i = 0; i < VF_VECMAX; i++) if (i < vec_data_size) s = s + vec_data[i];
  return s * vinv(vec_data_size_r);
}
#define CP_N vec_data_size_r
#ifdef CP_NFIX   /* the data length is fixed per unit instance (n = 1 and n = 3 are run): with a symbolic length no solver decides even post_var in 180 s */
#define CP_REQ REQ(vec_data_size == CP_NFIX && vec_data_size_r == CP_NFIX && CP_NFIX <= VF_VECMAX && sigma > 0 && sigma_d > 0 && pi > 0)
#else
#define CP_REQ REQ(1 <= vec_data_size && vec_data_size <= VF_VECMAX && sigma > 0 && sigma_d > 0 && pi > 0)
#endif
static Sc cp_sp2(void) { return vinv(vinv(sigma * sigma) + CP_N * vinv(sigma_d * sigma_d)); }
static Sc cp_mp(void) { return cp_sp2() * (m * vinv(sigma * sigma) + CP_N * cp_xbar() * vinv(sigma_d * sigma_d)); }
static Sc cp_loglik(Sc x) { Sc d = x - cp_xbar(); return -(CP_N * vinv(2 * (sigma_d * sigma_d))) * (d * d); }
static Sc cp_dfact_sigma(int k)   /* sigma^k (k-1)!! for even k >= 0, 0 for odd k; real-valued counters (CBMC cannot convert a symbolic int to a rational) */
{
  if (k % 2 != 0) return 0;
  Sc r = 1;
  for (int j = 1; j <= 24; j++) if (j <= k) r = r * sigma;
  Sc odd = 1;
  for (int j = 1; j <= 23; j += 2) { if (j <= k - 1) r = r * odd; odd = odd + 2; }
  return r;
}
#define CONTRACT_cp_normal__eval_prior_1 \
  CP_REQ ENS(RET * vsqrt(2 * pi * (sigma * sigma)) == vexp(-(1 * vinv(2 * (sigma * sigma))) * ((x - m) * (x - m)))) ENS(RET > 0) FRAME()
#define CONTRACT_cp_normal__eval_posterior_1 \
  CP_REQ ENS(RET * vsqrt(2 * pi * cp_sp2()) == vexp(-(1 * vinv(2 * cp_sp2())) * ((x - cp_mp()) * (x - cp_mp())))) FRAME(x_bar)
#define CONTRACT_cp_normal__eval_likelyhood_1    CP_REQ ENS_EQ(vexp(cp_loglik(x))) FRAME(x_bar)
#define CONTRACT_cp_normal__eval_loglikelyhood_1 CP_REQ ENS_EQ(cp_loglik(x)) FRAME(x_bar)
#define CONTRACT_cp_normal__eval_post_var_0      CP_REQ ENS(RET * (vinv(sigma * sigma) + CP_N * vinv(sigma_d * sigma_d)) == 1) FRAME()
#define CONTRACT_cp_normal__eval_post_mean_0     CP_REQ ENS_EQ(cp_mp()) FRAME()
#include "cp_normal_bounded.h"
