/* euler.spec.h -- contracts for euler_1d / euler_2d / euler_3d (properties C02, C07).
 * Oracle: the property statement (inviscid conservation laws applied to the documented fields). */
#include "roy.h"

#if defined(UNIT_euler_1d)
#define EULER1D_FIELDS \
  Sc y = 0, z = 0, t = 0; \
  ROY_X(rx, JSIN, rho_x, a_rhox); JADDC(RHO, rx, rho_0); \
  ROY_X(ux, JSIN, u_x, a_ux);     JADDC(U, ux, u_0); \
  ROY_X(px, JCOS, p_x, a_px);     JADDC(P, px, p_0); \
  JCONST(V, 0); JCONST(W, 0)
static Sc e1_exact_rho(Sc x) { EULER1D_FIELDS; return RHO_v; }
static Sc e1_exact_u(Sc x) { EULER1D_FIELDS; return U_v; }
static Sc e1_exact_p(Sc x) { EULER1D_FIELDS; return P_v; }
static Sc e1_g_rho(Sc x) { EULER1D_FIELDS; return RHO_x; }
static Sc e1_g_u(Sc x) { EULER1D_FIELDS; return U_x; }
static Sc e1_g_p(Sc x) { EULER1D_FIELDS; return P_x; }
static Sc e1_q_rho(Sc x) { EULER1D_FIELDS; EULER_OPERATORS; return op_mass; }
static Sc e1_q_rho_u(Sc x) { EULER1D_FIELDS; EULER_OPERATORS; return op_xmom; }
static Sc e1_q_rho_e(Sc x) { EULER1D_FIELDS; EULER_OPERATORS; return op_energy; }
#define E1REQ REQ(VF_PI_OK)
#define CONTRACT_euler_1d__eval_exact_rho_1 E1REQ ENS_EQ(e1_exact_rho(x)) FRAME()
#define CONTRACT_euler_1d__eval_exact_u_1   E1REQ ENS_EQ(e1_exact_u(x)) FRAME()
#define CONTRACT_euler_1d__eval_exact_p_1   E1REQ ENS_EQ(e1_exact_p(x)) FRAME()
#define CONTRACT_euler_1d__eval_g_rho_1     E1REQ ENS_EQ(e1_g_rho(x)) FRAME()
#define CONTRACT_euler_1d__eval_g_u_1       E1REQ ENS_EQ(e1_g_u(x)) FRAME()
#define CONTRACT_euler_1d__eval_g_p_1       E1REQ ENS_EQ(e1_g_p(x)) FRAME()
#define CONTRACT_euler_1d__eval_q_rho_1     E1REQ ENS_EQ(e1_q_rho(x)) FRAME()
#define CONTRACT_euler_1d__eval_q_rho_u_1   E1REQ ENS_EQ(e1_q_rho_u(x)) FRAME()
#define CONTRACT_euler_1d__eval_q_rho_e_1   E1REQ ENS_EQ(e1_q_rho_e(x)) FRAME()
#endif
