"""C19 memory errors / leaks -- only the part a contract can express (DESIGN 4/C19):
 (a) allocation counter: init_mms, masa_printid, ~MasterMS keep 'live objects == registered handles' (no leak, no double delete),
 (b) the base constructor initialises every bookkeeping member (num_vars, num_vec, both index vectors),
 (c) every vararr[..] / vecarr[..] index is within size() in all store functions (explicit obligation in V_at),
 (d) C array wrappers: masa_get_array copies exactly length elements, masa_set_array reads exactly *n,
 (e) BOUNDED: operator[] on the vector parameters inside the member functions of the classes that own them stays within size() (lengths 0..8).
Not covered: anything only visible in compiled C++ (use-after-free inside libstdc++ objects, destructor order, sanitizer findings)."""
import os, time, json
import apicheck, regcheck, p_c11, p_c10
from common import *

def run(tier, seed):
    t0 = time.time()
    rep = Report('C19')
    d = scratch('c19')
    only = os.environ.get('VF_ONLY')
    rjobs, rnot, rinfo, cat = regcheck.jobs_for(d, only)
    rres = regcheck.run_jobs(d, rjobs, tier)
    r_dis, r_per, r_samples = regcheck.account(rep, rres, rinfo)
    sd = os.path.join(d, 'store')
    os.makedirs(sd, exist_ok=True)
    sjobs, snot, sinfo = p_c11.store_jobs(sd, tier, only)
    sres = p_c11.run_store_jobs(sd, sjobs, tier)
    s_dis = 0
    s_per = []
    for (cname, hf, repl, loops), r in sres:
        s_per.append({'function': cname, 'status': r.status, 'backend': r.backend, 'seconds': round(r.seconds, 2), 'canary': r.canary, 'obligations': len(r.obligations),
                      'index_obligations': [o[0] for o in r.obligations if 'vararr_at' in o[0] or 'vecarr_at' in o[0]]})
        if r.status == 'discharged' and r.canary == 'reachable':
            s_dis += len(r.obligations)
        elif r.status == 'refuted':
            rep.violation(cname + '.contract', {'function': cname, 'failed_obligations': r.failed, 'verifier_output': r.log[-6000:]}, no_input=True)
        else:
            rep.undecide('%s: %s (%s)' % (cname, r.status, r.detail))
    abase = os.path.join(d, 'api')
    ajobs, anot, ainfo = apicheck.build({'cwrappers'}, abase, only=only or 'array')
    ares = apicheck.run_jobs(ajobs, abase, tier)
    a_dis, a_per, a_samples = apicheck.account(rep, ares, abase)
    n_dis = r_dis + s_dis + a_dis
    v_per, v_bounded = p_c10.vector_index_check(rep, d, tier, only) if (not only or 'vidx' in only or 'radiation' in only or 'cp_normal' in only) else ([], [])
    trusted = regcheck.TRUSTED_REG + p_c11.TRUSTED + ['only the obligations (a)-(d) of DESIGN 4/C19 are claimed; sanitizer-level behaviour of the compiled C++ is out of reach of contracts on extracted C']
    cov = {'obligations': n_dis + len(rep.violations) + len(rep.undecided), 'discharged': n_dis,   # obligations that fail as recorded known findings are counted under known_finding_obligations only
          
           'checker_cmd': rres[0][1].cmd if rres else 'n/a', 'trusted_base': trusted,
           'functions_under_contract': [j[0] for j, r in rres] + [j[0] for j, r in sres] + [j[0] for j, r in ares],
           'functions_not_under_contract': rnot + snot, 'per_function': r_per + s_per + a_per + v_per, 'bounded': v_bounded,
           'samples': (r_samples[:2] + a_samples[:1]) or [{'note': 'nothing discharged'}],
           'explanation': '(a) REG_WF contains ghost_live == number of handles; init_mms (all candidates but the kept one deleted, previous object of a re-used handle deleted), '
                          'masa_printid (allocates and deletes the whole catalogue) and ~MasterMS (every owned object deleted once; ms_delete requires the object to be alive: no double free) '
                          're-establish it; (b) store__ctor postcondition names num_vars, num_vec, vararr, vecarr; (c) the index assertion inside vararr_at/vecarr_at is an obligation '
                          'of every store function; (d) masa_get_array / masa_set_array contracts; (e) see bounded.'}
    write_evidence('C19', tier, seed, 'proof', cov, trusted, time.time() - t0, len(rep.violations))
    print('C19: %d functions under contract, %d obligations discharged, %d violations, %d undecided (%.1fs)' % (
        len(rres) + len(sres) + len(ares), n_dis, len(rep.violations), len(rep.undecided), time.time() - t0))
    return rep.finish()

def replay(path):
    return apicheck.replay_generic(path)
