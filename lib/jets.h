/* jets.h -- second-order jets in (x,y,z,t) as bundles of scalar locals (written once with a small generator; this file is the source).
 * A jet of name r is the 11 locals r_v, r_x, r_y, r_z, r_t, r_xx, r_yy, r_zz, r_xy, r_xz, r_yz
 * (value, first partials, second spatial partials).  Each macro is one textbook differentiation rule.
 * Part of the SPEC LIBRARY (trusted: reviewed once, shared by all solutions). */
#ifndef VF_JETS_H
#define VF_JETS_H
#define JD(r) Sc r##_v, r##_x, r##_y, r##_z, r##_t, r##_xx, r##_yy, r##_zz, r##_xy, r##_xz, r##_yz
#define JCONST(r,c) JD(r); r##_v=(c); r##_x=0; r##_y=0; r##_z=0; r##_t=0; r##_xx=0; r##_yy=0; r##_zz=0; r##_xy=0; r##_xz=0; r##_yz=0
#define JVARX(r,c) JCONST(r,c); r##_x=1
#define JVARY(r,c) JCONST(r,c); r##_y=1
#define JVARZ(r,c) JCONST(r,c); r##_z=1
#define JVART(r,c) JCONST(r,c); r##_t=1
#define JLIN(r,c0,kx,ky,kz,kt) JD(r); r##_v=(c0); r##_x=(kx); r##_y=(ky); r##_z=(kz); r##_t=(kt); r##_xx=0; r##_yy=0; r##_zz=0; r##_xy=0; r##_xz=0; r##_yz=0
#define JADD(r,a,b) JD(r); r##_v=a##_v+b##_v; r##_x=a##_x+b##_x; r##_y=a##_y+b##_y; r##_z=a##_z+b##_z; r##_t=a##_t+b##_t; r##_xx=a##_xx+b##_xx; r##_yy=a##_yy+b##_yy; r##_zz=a##_zz+b##_zz; r##_xy=a##_xy+b##_xy; r##_xz=a##_xz+b##_xz; r##_yz=a##_yz+b##_yz
#define JSUB(r,a,b) JD(r); r##_v=a##_v-b##_v; r##_x=a##_x-b##_x; r##_y=a##_y-b##_y; r##_z=a##_z-b##_z; r##_t=a##_t-b##_t; r##_xx=a##_xx-b##_xx; r##_yy=a##_yy-b##_yy; r##_zz=a##_zz-b##_zz; r##_xy=a##_xy-b##_xy; r##_xz=a##_xz-b##_xz; r##_yz=a##_yz-b##_yz
#define JSCALE(r,k,a) JD(r); r##_v=(k)*a##_v; r##_x=(k)*a##_x; r##_y=(k)*a##_y; r##_z=(k)*a##_z; r##_t=(k)*a##_t; r##_xx=(k)*a##_xx; r##_yy=(k)*a##_yy; r##_zz=(k)*a##_zz; r##_xy=(k)*a##_xy; r##_xz=(k)*a##_xz; r##_yz=(k)*a##_yz
#define JNEG(r,a) JD(r); r##_v=-a##_v; r##_x=-a##_x; r##_y=-a##_y; r##_z=-a##_z; r##_t=-a##_t; r##_xx=-a##_xx; r##_yy=-a##_yy; r##_zz=-a##_zz; r##_xy=-a##_xy; r##_xz=-a##_xz; r##_yz=-a##_yz
#define JADDC(r,a,k) JD(r); r##_v=a##_v+(k); r##_x=a##_x; r##_y=a##_y; r##_z=a##_z; r##_t=a##_t; r##_xx=a##_xx; r##_yy=a##_yy; r##_zz=a##_zz; r##_xy=a##_xy; r##_xz=a##_xz; r##_yz=a##_yz
#define JMUL(r,a,b) JD(r); r##_v=a##_v*b##_v; r##_x=a##_x*b##_v+a##_v*b##_x; r##_y=a##_y*b##_v+a##_v*b##_y; r##_z=a##_z*b##_v+a##_v*b##_z; r##_t=a##_t*b##_v+a##_v*b##_t; r##_xx=a##_xx*b##_v+2*a##_x*b##_x+a##_v*b##_xx; r##_yy=a##_yy*b##_v+2*a##_y*b##_y+a##_v*b##_yy; r##_zz=a##_zz*b##_v+2*a##_z*b##_z+a##_v*b##_zz; r##_xy=a##_xy*b##_v+a##_x*b##_y+a##_y*b##_x+a##_v*b##_xy; r##_xz=a##_xz*b##_v+a##_x*b##_z+a##_z*b##_x+a##_v*b##_xz; r##_yz=a##_yz*b##_v+a##_y*b##_z+a##_z*b##_y+a##_v*b##_yz
/* r = f(a) with f(a)=f0, f'(a)=d1, f''(a)=d2 */
#define JCHAIN(r,a,f0,d1,d2) JD(r); r##_v=(f0); r##_x=(d1)*a##_x; r##_y=(d1)*a##_y; r##_z=(d1)*a##_z; r##_t=(d1)*a##_t; r##_xx=(d2)*a##_x*a##_x+(d1)*a##_xx; r##_yy=(d2)*a##_y*a##_y+(d1)*a##_yy; r##_zz=(d2)*a##_z*a##_z+(d1)*a##_zz; r##_xy=(d2)*a##_x*a##_y+(d1)*a##_xy; r##_xz=(d2)*a##_x*a##_z+(d1)*a##_xz; r##_yz=(d2)*a##_y*a##_z+(d1)*a##_yz
#define JSIN(r,a) Sc r##_s=vsin(a##_v), r##_c=vcos(a##_v); JCHAIN(r,a,r##_s,r##_c,-r##_s)
#define JCOS(r,a) Sc r##_s=vsin(a##_v), r##_c=vcos(a##_v); JCHAIN(r,a,r##_c,-r##_s,-r##_c)
#define JEXP(r,a) Sc r##_e=vexp(a##_v); JCHAIN(r,a,r##_e,r##_e,r##_e)
#define JSQRT(r,a) Sc r##_q=vsqrt(a##_v); Sc r##_qi=vinv(r##_q); JCHAIN(r,a,r##_q,LIT(1,2)*r##_qi,-LIT(1,4)*r##_qi*r##_qi*r##_qi)
#define JLOG(r,a) Sc r##_l=vlog(a##_v); Sc r##_li=vinv(a##_v); JCHAIN(r,a,r##_l,r##_li,-r##_li*r##_li)
/* reciprocal, plain rendering: (1/a)' = -a'/a^2, (1/a)'' = 2a'^2/a^3 - a''/a^2 */
#define JINV_PLAIN(r,a) Sc r##_i=vinv(a##_v); JCHAIN(r,a,r##_i,-r##_i*r##_i,2*r##_i*r##_i*r##_i)
/* reciprocal over the common denominator a^3 (equal to JINV_PLAIN for a != 0; lemma jets_inv_forms) */
#define JINV(r,a) Sc r##_i=vinv(a##_v); Sc r##_i3=r##_i*r##_i*r##_i; JD(r); r##_v=r##_i; r##_x=-r##_i*r##_i*a##_x; r##_y=-r##_i*r##_i*a##_y; r##_z=-r##_i*r##_i*a##_z; r##_t=-r##_i*r##_i*a##_t; r##_xx=(2*a##_x*a##_x-a##_xx*a##_v)*r##_i3; r##_yy=(2*a##_y*a##_y-a##_yy*a##_v)*r##_i3; r##_zz=(2*a##_z*a##_z-a##_zz*a##_v)*r##_i3; r##_xy=(2*a##_x*a##_y-a##_xy*a##_v)*r##_i3; r##_xz=(2*a##_x*a##_z-a##_xz*a##_v)*r##_i3; r##_yz=(2*a##_y*a##_z-a##_yz*a##_v)*r##_i3
#endif
