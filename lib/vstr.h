/* vstr.h -- contract-bearing C interface standing for std::string in masa_map.cpp (TRUSTED: the contracts below are the
 * assumed semantics of std::string::find(char-literal, pos), std::string::replace(pos, 1, ""), length(), operator[],
 * copy-assignment (struct copy) and std::tolower in the C locale).  Capacity VNMAX bounds the string length; loops are
 * closed by loop contracts, so the proofs hold for every length 0..VNMAX. */
#ifndef VF_VSTR_H
#define VF_VSTR_H
#ifndef VNMAX
#define VNMAX 64
#endif
typedef struct { char d[VNMAX]; int len; } vstr;
#define VNPOS_INT (-1)          /* int(std::string::npos) */
#define VSTR_WF(s) (0 <= (s)->len && (s)->len <= VNMAX)

char ghost_c;                   /* an arbitrary fixed character (ghost constant: contracts hold for every value) */
int ghost_erased_nondash;       /* set when a character other than '-' is erased */
int ghost_erased_nonspace;      /* set when a character other than ' ' is erased */

#define VTOLOWER(c) (((c) >= 'A' && (c) <= 'Z') ? (c) + ('a' - 'A') : (c))   /* C-locale tolower, as an expression for use inside quantifiers */
static int vtolower(int c) { return VTOLOWER(c); }

#ifdef VSTR_REFERENCE
/* reference bodies (bounded stand-in only) */
static int vstr_find(const vstr *s, char c, int from) { for (int j = from; j < s->len; j++) if (s->d[j] == c) return j; return VNPOS_INT; }
static void vstr_erase1(vstr *s, int pos) { for (int j = pos; j + 1 < s->len; j++) s->d[j] = s->d[j + 1]; s->len--; }
#else
int vstr_find(const vstr *s, char c, int from)
__CPROVER_requires(VSTR_WF(s) && from >= 0)
__CPROVER_assigns()
__CPROVER_ensures(__CPROVER_return_value == VNPOS_INT ||
                  (from <= __CPROVER_return_value && __CPROVER_return_value < s->len && s->d[__CPROVER_return_value] == c))
__CPROVER_ensures(__CPROVER_forall { int j; (from <= j && j < s->len && (__CPROVER_return_value == VNPOS_INT || j < __CPROVER_return_value)) ==> s->d[j] != c })
;
void vstr_erase1(vstr *s, int pos)
__CPROVER_requires(VSTR_WF(s) && 0 <= pos && pos < s->len)
__CPROVER_assigns(s->len, __CPROVER_object_whole(s->d), ghost_erased_nondash, ghost_erased_nonspace)
__CPROVER_ensures(s->len == __CPROVER_old(s->len) - 1)
__CPROVER_ensures(__CPROVER_forall { int j1; (0 <= j1 && j1 < pos) ==> s->d[j1] == __CPROVER_old(s->d)[j1] })
__CPROVER_ensures(__CPROVER_forall { int j2; (pos <= j2 && j2 < s->len) ==> s->d[j2] == __CPROVER_old(s->d)[j2 + 1] })
__CPROVER_ensures(__CPROVER_old(s->d[pos]) == '-' ? ghost_erased_nondash == __CPROVER_old(ghost_erased_nondash) : ghost_erased_nondash == 1)
__CPROVER_ensures(__CPROVER_old(s->d[pos]) == ' ' ? ghost_erased_nonspace == __CPROVER_old(ghost_erased_nonspace) : ghost_erased_nonspace == 1)
;
#endif
#endif
