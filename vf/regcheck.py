"""regcheck.py -- builds and runs the registry unit (MasterMS<Scalar> of masa_core.cpp) for C12 / C16 / C19."""
import os, re, sys, json, time
from concurrent.futures import ThreadPoolExecutor
import xreg
from xtract import ExtractionBreak
from common import *
from cbmcjob import cbmc_job

TRUSTED_REG = [
    'std::map / std::vector semantics as contracts in lib/vstore.h; handles and solution names are interned identifiers; new X<Scalar>() / delete are the contract-bearing ms_new / ms_delete (fresh identity, allocation counter)',
    'masa_map is the uninterpreted normal-form function here (its own contracts: C13); each class constructor stores a fixed non-empty mmsname (C14 obligation)',
    'default configuration: the #ifdef HAVE_METAPHYSICL block of get_list_mms is not compiled',
    'masa_exit is a ghost event; execution after it in the C rendering is not real (contracts constrain the state at the event)',
    'capacities: 256 handles, 256 objects; CBMC 6.11 DFCC + loop contracts; z3 5.1 / z3 4.8 (quantified obligations), one cbmc run per key obligation',
]

FUNCS = [  # cname, harness decls, args, callees replaced by contract, loop contracts
    ('reg__get_list_mms', '', '', [], False),
    ('reg__select_mms', 'vkey h;', 'h', ['_master_map_find', 'reg__list_mms'], False),
    ('reg__list_mms', '', '', ['_master_map_begin', '_master_map_next'], True),
    ('reg__init_mms', 'vkey h; vkey n;', 'h, n', ['reg__get_list_mms', '_master_map_set', '_master_map_find', 'ms_delete'], True),
    ('reg__masa_printid', '', '', ['reg__get_list_mms', 'ms_delete'], True),
    ('reg__dtor', '', '', ['_master_map_begin', '_master_map_next', 'ms_delete', '_master_map_clear'], True),
]


def build(d):
    text, info, cat = xreg.extract_registry(os.path.join(SRC, 'masa_core.cpp'))
    ids = sorted(set(cat), key=cat.index)
    pre = ['/* registry unit -- extracted mechanically by vf/xreg.py; DO NOT EDIT */',
           'typedef int vobj;', 'int ghost_msg, ghost_exit;', '#define GHOST_MSG(c) (ghost_msg |= (c))', '#define GHOST_EXIT(c) (ghost_exit = 1000 + (c))',
           '#include "vstore.h"', '#define NCAT %d' % len(cat), '#define NCAT_MAX 64']
    pre += ['#define ID_%s %d' % (c, i) for i, c in enumerate(ids)]
    pre.append('const int CAT[NCAT] = {%s};   /* the catalogue, in registration order, read from get_list_mms on this run */' % ', '.join('ID_' + c for c in cat))
    pre.append('#include "registry.spec.h"')
    for i in info:
        pre.append('#ifndef CONTRACT_%s\n#define CONTRACT_%s\n#endif' % (i['function'], i['function']))
        for k in (1, 2):
            pre.append('#ifndef LOOP_%s_%d\n#define LOOP_%s_%d\n#endif' % (i['function'], k, i['function'], k))
    pre.append('int reg__get_list_mms(void); void reg__list_mms(void);')
    open(os.path.join(d, 'reg_unit.c'), 'w').write('\n'.join(pre) + '\n' + text)
    return info, cat


def jobs_for(d, only=None, names=None):
    info, cat = build(d)
    have = set(re.findall(r'^\s*#\s*define\s+CONTRACT_(reg__\w+)\b', open(os.path.join(CONTRACTS, 'registry.spec.h')).read(), re.M))
    jobs, not_under = [], []
    for cname, decl, args, repl, loops in FUNCS:
        if names and cname not in names:
            continue
        if only and not re.search(only, cname):
            continue
        if cname not in have:
            not_under.append(cname)
            continue
        hf = os.path.join(d, 'h_%s.c' % cname)
        open(hf, 'w').write('#include "reg_unit.c"\nvoid h_%s(void)\n{ %s\n  %s(%s);\n  __CPROVER_assert(0, "canary");\n}\n' % (cname, decl, cname, args))
        jobs.append((cname, hf, repl, loops))
    if (not names or 'reg_witness' in names) and not only:
        hf = os.path.join(d, 'h_reg_witness.c')
        open(hf, 'w').write('#include "reg_unit.c"\n')
        jobs.append(('reg_witness', hf, [], False))
        info.append({'function': 'reg_witness', 'sha256': 'n/a (spec-level witness harness)', 'hits': {}})
    return jobs, not_under, info, cat


# capacities of the small-scope refutation pass (fallback when a quantified obligation stays undecided): up to 2 registered handles, 7 earlier objects
SMALL = {'KMAX': 5, 'KSLACK': 2, 'HMAX': 8, 'VMAXV': 64, 'OMAX': 136, 'OSLACK': 128}


def run_jobs(d, jobs, tier):
    tmo = 900 if tier == 'quick' else 3600      # init_mms: the slowest single obligation (REG_WF_C after the call) needs ~2-6 min with z3 5.1

    def work(j):
        cname, hf, repl, loops = j
        if cname == 'reg_witness':
            return j, cbmc_job(d, cname, hf, 'reg_witness', enforce=None, smt=True, timeout=tmo, solvers=['z3new', 'z3'], canary_timeout=90,
                               own_prefixes=('reg_witness',), split=True, split_workers=4, small_scope=SMALL)
        return j, cbmc_job(d, cname, hf, 'h_' + cname, enforce=cname, replace=repl, loop_contracts=loops, smt=True, timeout=tmo,
                           solvers=['z3new', 'z3'], canary_timeout=60, split=True, split_workers=12 if cname == 'reg__init_mms' else 4, small_scope=SMALL)

    with ThreadPoolExecutor(max_workers=6) as ex:
        return list(ex.map(work, jobs))


def account(rep, results, info):
    n_dis = 0
    per_fn, samples = [], []
    for (cname, hf, repl, loops), r in results:
        per_fn.append({'function': cname, 'status': r.status, 'backend': r.backend, 'seconds': round(r.seconds, 2), 'canary': r.canary,
                       'obligations': len(r.obligations), 'callees_replaced_by_contract': repl,
                       'source_sha256': [i['sha256'] for i in info if i['function'] == cname][0]})
        witness_ok = any(j2[0] == 'reg_witness' and r2.status == 'discharged' and r2.canary == 'reachable' for j2, r2 in results)
        if r.status == 'discharged' and r.canary != 'reachable' and witness_ok and cname in ('reg__init_mms', 'reg__select_mms', 'reg__list_mms', 'reg__dtor'):
            r.canary = 'witness'      # non-vacuity shown by the concrete-state witness harness instead of a solver model
            per_fn[-1]['canary'] = 'witness (reg_witness asserts the precondition in two concrete registry states)'
        if r.status == 'discharged' and r.canary in ('reachable', 'witness'):
            n_dis += len(r.obligations)
            if len(samples) < 4:
                samples.append({'function': cname, 'obligations': [o[0] for o in r.obligations if re.search(r'postcondition|loop_inv|precondition', o[0])][:8]})
            continue
        payload = {'function': cname, 'status': r.status, 'failed_obligations': r.failed, 'detail': r.detail, 'verifier_output': r.log[-8000:], 'checker_cmd': r.cmd}
        if os.environ.get('VF_VERBOSE'):
            sys.stderr.write(r.log[-4000:] + '\n')
        if r.status == 'refuted':
            rep.violation(cname + '.contract', payload, no_input=True)
        else:
            rep.undecide('%s: %s (%s) canary=%s' % (cname, r.status, r.detail, r.canary))
    return n_dis, per_fn, samples


def replay(path):
    p = json.load(open(path))
    print('replay file carries no concrete input (no-failing-input-found); failed obligation(s): %s of %s' % (p.get('failed_obligations'), p.get('function')))
    print((p.get('verifier_output') or '')[-3000:])
    return EXIT_VIOLATION
