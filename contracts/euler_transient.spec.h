/* euler_transient.spec.h -- contracts for euler_transient_1d / _2d / _3d (property C02).
 * Oracle: the property statement.  The unsteady inviscid conservation laws
 *   rho_t + div(rho u),  (rho u)_t + div(rho u u) + grad p,  (rho e_t)_t + div(rho u H)
 * (EULER_OPERATORS of roy.h, time terms included) applied to the Roy-type fields
 *   phi = phi_0 + phi_x f(a_phix pi x/L) [+ phi_y g(a_phiy pi y/L) [+ phi_z h(a_phiz pi z/L)]] + phi_t k(a_phit pi t/L)
 * where the spatial part is the documented steady form of doxygen/solutions/euler.page and the time factor is
 *   rho: sin   u: cos   v: sin   w: cos   p: cos
 * (the form the exact-field evaluators return; the same jet is used for eval_exact_* and for the sources).
 * The files mix `pi` and `PI`: REQ(VF_PI_OK). */
#include "roy.h"

#if defined(UNIT_euler_transient_1d)
#define ET1_FIELDS \
  Sc y = 0, z = 0; \
  ROY_X(rx, JSIN, rho_x, a_rhox); ROY_T(rt, JSIN, rho_t, a_rhot); JSUM3(RHO, rho_0, rx, rt); \
  ROY_X(ux, JSIN, u_x, a_ux);     ROY_T(ut, JCOS, u_t, a_ut);     JSUM3(U, u_0, ux, ut); \
  ROY_X(px, JCOS, p_x, a_px);     ROY_T(pt, JCOS, p_t, a_pt);     JSUM3(P, p_0, px, pt); \
  JCONST(V, 0); JCONST(W, 0)
static Sc et1_exact_rho(Sc x, Sc t) { ET1_FIELDS; return RHO_v; }
static Sc et1_exact_u(Sc x, Sc t) { ET1_FIELDS; return U_v; }
static Sc et1_exact_p(Sc x, Sc t) { ET1_FIELDS; return P_v; }
static Sc et1_q_rho(Sc x, Sc t) { ET1_FIELDS; EULER_OPERATORS; return op_mass; }
static Sc et1_q_rho_u(Sc x, Sc t) { ET1_FIELDS; EULER_OPERATORS; return op_xmom; }
static Sc et1_q_rho_e(Sc x, Sc t) { ET1_FIELDS; EULER_OPERATORS; return op_energy; }
#define ET1REQ REQ(VF_PI_OK)
#define CONTRACT_euler_transient_1d__eval_exact_rho_2 ET1REQ ENS_EQ(et1_exact_rho(x, t)) FRAME()
#define CONTRACT_euler_transient_1d__eval_exact_u_2   ET1REQ ENS_EQ(et1_exact_u(x, t)) FRAME()
#define CONTRACT_euler_transient_1d__eval_exact_p_2   ET1REQ ENS_EQ(et1_exact_p(x, t)) FRAME()
#define CONTRACT_euler_transient_1d__eval_q_rho_2     ET1REQ ENS_EQ(et1_q_rho(x, t)) FRAME()
#define CONTRACT_euler_transient_1d__eval_q_rho_u_2   ET1REQ ENS_EQ(et1_q_rho_u(x, t)) FRAME()
#define CONTRACT_euler_transient_1d__eval_q_rho_e_2   ET1REQ ENS_EQ(et1_q_rho_e(x, t)) FRAME()
#endif

#if defined(UNIT_euler_transient_2d)
#define ET2_FIELDS \
  Sc z = 0; \
  ROY_X(rx, JSIN, rho_x, a_rhox); ROY_Y(ry, JCOS, rho_y, a_rhoy); ROY_T(rt, JSIN, rho_t, a_rhot); JSUM4(RHO, rho_0, rx, ry, rt); \
  ROY_X(ux, JSIN, u_x, a_ux);     ROY_Y(uy, JCOS, u_y, a_uy);     ROY_T(ut, JCOS, u_t, a_ut);     JSUM4(U, u_0, ux, uy, ut); \
  ROY_X(vx, JCOS, v_x, a_vx);     ROY_Y(vy, JSIN, v_y, a_vy);     ROY_T(vt, JSIN, v_t, a_vt);     JSUM4(V, v_0, vx, vy, vt); \
  ROY_X(px, JCOS, p_x, a_px);     ROY_Y(py, JSIN, p_y, a_py);     ROY_T(pt, JCOS, p_t, a_pt);     JSUM4(P, p_0, px, py, pt); \
  JCONST(W, 0)
static Sc et2_exact_rho(Sc x, Sc y, Sc t) { ET2_FIELDS; return RHO_v; }
static Sc et2_exact_u(Sc x, Sc y, Sc t) { ET2_FIELDS; return U_v; }
static Sc et2_exact_v(Sc x, Sc y, Sc t) { ET2_FIELDS; return V_v; }
static Sc et2_exact_p(Sc x, Sc y, Sc t) { ET2_FIELDS; return P_v; }
static Sc et2_q_rho(Sc x, Sc y, Sc t) { ET2_FIELDS; EULER_OPERATORS; return op_mass; }
static Sc et2_q_u(Sc x, Sc y, Sc t) { ET2_FIELDS; EULER_OPERATORS; return op_xmom; }
static Sc et2_q_v(Sc x, Sc y, Sc t) { ET2_FIELDS; EULER_OPERATORS; return op_ymom; }
static Sc et2_q_e(Sc x, Sc y, Sc t) { ET2_FIELDS; EULER_OPERATORS; return op_energy; }
#define ET2REQ REQ(VF_PI_OK)
#define CONTRACT_euler_transient_2d__eval_exact_rho_3 ET2REQ ENS_EQ(et2_exact_rho(x, y, t)) FRAME()
#define CONTRACT_euler_transient_2d__eval_exact_u_3   ET2REQ ENS_EQ(et2_exact_u(x, y, t)) FRAME()
#define CONTRACT_euler_transient_2d__eval_exact_v_3   ET2REQ ENS_EQ(et2_exact_v(x, y, t)) FRAME()
#define CONTRACT_euler_transient_2d__eval_exact_p_3   ET2REQ ENS_EQ(et2_exact_p(x, y, t)) FRAME()
#define CONTRACT_euler_transient_2d__eval_q_rho_3     ET2REQ ENS_EQ(et2_q_rho(x, y, t)) FRAME()
#define CONTRACT_euler_transient_2d__eval_q_u_3       ET2REQ ENS_EQ(et2_q_u(x, y, t)) FRAME()
#define CONTRACT_euler_transient_2d__eval_q_v_3       ET2REQ ENS_EQ(et2_q_v(x, y, t)) FRAME()
#define CONTRACT_euler_transient_2d__eval_q_e_3       ET2REQ ENS_EQ(et2_q_e(x, y, t)) FRAME()
#endif

#if defined(UNIT_euler_transient_3d)
#define ET3_RHO ROY_X(rx, JSIN, rho_x, a_rhox); ROY_Y(ry, JCOS, rho_y, a_rhoy); ROY_Z(rz, JSIN, rho_z, a_rhoz); ROY_T(rt, JSIN, rho_t, a_rhot); JSUM5(RHO, rho_0, rx, ry, rz, rt)
#define ET3_U   ROY_X(ux, JSIN, u_x, a_ux);     ROY_Y(uy, JCOS, u_y, a_uy);     ROY_Z(uz, JCOS, u_z, a_uz);     ROY_T(ut, JCOS, u_t, a_ut);     JSUM5(U, u_0, ux, uy, uz, ut)
#define ET3_V   ROY_X(vx, JCOS, v_x, a_vx);     ROY_Y(vy, JSIN, v_y, a_vy);     ROY_Z(vz, JSIN, v_z, a_vz);     ROY_T(vt, JSIN, v_t, a_vt);     JSUM5(V, v_0, vx, vy, vz, vt)
#define ET3_W   ROY_X(wx, JSIN, w_x, a_wx);     ROY_Y(wy, JSIN, w_y, a_wy);     ROY_Z(wz, JCOS, w_z, a_wz);     ROY_T(wt, JCOS, w_t, a_wt);     JSUM5(W, w_0, wx, wy, wz, wt)
#define ET3_P   ROY_X(px, JCOS, p_x, a_px);     ROY_Y(py, JSIN, p_y, a_py);     ROY_Z(pz, JCOS, p_z, a_pz);     ROY_T(pt, JCOS, p_t, a_pt);     JSUM5(P, p_0, px, py, pz, pt)
#define ET3_FIELDS ET3_RHO; ET3_U; ET3_V; ET3_W; ET3_P
static Sc et3_exact_rho(Sc x, Sc y, Sc z, Sc t) { ET3_RHO; return RHO_v; }
static Sc et3_exact_u(Sc x, Sc y, Sc z, Sc t) { ET3_U; return U_v; }
static Sc et3_exact_v(Sc x, Sc y, Sc z, Sc t) { ET3_V; return V_v; }
static Sc et3_exact_w(Sc x, Sc y, Sc z, Sc t) { ET3_W; return W_v; }
static Sc et3_exact_p(Sc x, Sc y, Sc z, Sc t) { ET3_P; return P_v; }
static Sc et3_q_rho(Sc x, Sc y, Sc z, Sc t) { ET3_FIELDS; EULER_OPERATORS; return op_mass; }
static Sc et3_q_u(Sc x, Sc y, Sc z, Sc t) { ET3_FIELDS; EULER_OPERATORS; return op_xmom; }
static Sc et3_q_v(Sc x, Sc y, Sc z, Sc t) { ET3_FIELDS; EULER_OPERATORS; return op_ymom; }
static Sc et3_q_w(Sc x, Sc y, Sc z, Sc t) { ET3_FIELDS; EULER_OPERATORS; return op_zmom; }
static Sc et3_q_e(Sc x, Sc y, Sc z, Sc t) { ET3_FIELDS; EULER_OPERATORS; return op_energy; }
#define ET3REQ REQ(VF_PI_OK)
#define CONTRACT_euler_transient_3d__eval_exact_rho_4 ET3REQ ENS_EQ(et3_exact_rho(x, y, z, t)) FRAME()
#define CONTRACT_euler_transient_3d__eval_exact_u_4   ET3REQ ENS_EQ(et3_exact_u(x, y, z, t)) FRAME()
#define CONTRACT_euler_transient_3d__eval_exact_v_4   ET3REQ ENS_EQ(et3_exact_v(x, y, z, t)) FRAME()
#define CONTRACT_euler_transient_3d__eval_exact_w_4   ET3REQ ENS_EQ(et3_exact_w(x, y, z, t)) FRAME()
#define CONTRACT_euler_transient_3d__eval_exact_p_4   ET3REQ ENS_EQ(et3_exact_p(x, y, z, t)) FRAME()
#define CONTRACT_euler_transient_3d__eval_q_rho_4     ET3REQ ENS_EQ(et3_q_rho(x, y, z, t)) FRAME()
#define CONTRACT_euler_transient_3d__eval_q_u_4       ET3REQ ENS_EQ(et3_q_u(x, y, z, t)) FRAME()
#define CONTRACT_euler_transient_3d__eval_q_v_4       ET3REQ ENS_EQ(et3_q_v(x, y, z, t)) FRAME()
#define CONTRACT_euler_transient_3d__eval_q_w_4       ET3REQ ENS_EQ(et3_q_w(x, y, z, t)) FRAME()
#define CONTRACT_euler_transient_3d__eval_q_e_4       ET3REQ ENS_EQ(et3_q_e(x, y, z, t)) FRAME()
#endif
