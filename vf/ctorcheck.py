"""ctorcheck.py -- per-class constructor / init_var obligations (C11 "init_param restores every parameter", C14 catalogue
integrity).  For every catalogue class the constructor and init_var bodies are extracted from /repo/src and executed by
CBMC together with the EXTRACTED store functions of masa_class.cpp over the reference containers of lib/vstore.h.
All names and addresses are constants, arithmetic is IEEE double (bit-precise), parameter values before init_var are
fully symbolic: a loop-free / constant-bounded harness over a full symbolic domain, i.e. a complete proof of:
  (a) construction registers every name exactly once (no FATAL message, num_vars == number of register_var calls),
  (b) sanity_check() == 0 right after construction,
  (c) init_var() returns 0,
  (d) init_var() from ANY parameter values restores exactly the values construction left (and vector lengths),
  (e) dimension literal == documented dimension, evaluator arities are dim or dim+1,
  (f) mmsname literal is its own masa_map normal form (extracted masa_map executed on the literal) and names are unique."""
import os, re, sys, json, time, hashlib
from concurrent.futures import ThreadPoolExecutor
import xtract, xstore, xstl, xreg
from xtract import ExtractionBreak, strip_comments, tokenize, find_functions
from common import *
from cbmcjob import cbmc_job
import xapi

FIXTURES = {'masa_test_function', 'masa_uninit'}       # the two deliberately broken self-test fixtures (excluded by the property)
SPECIAL = {'navierstokes_4d_compressible_powerlaw': 'registration through the foreach_parameter macro / helper functors of nsctpl (not a literal list of register_var calls)'}
DOC_DIM = {'axi_cns': 2, 'axi_euler': 2, 'axi_euler_transient': 2, 'axi_cns_transient': 2, 'cp_normal': 1, 'rans_sa': 1, 'burgers_equation': 2,
           'fans_sa_steady_wall_bounded': 2, 'fans_sa_transient_free_shear': 2, 'radiation_integrated_intensity': 1,
           'navierstokes_ablation_1d_steady': 1, 'sod_1d': 1, 'euler_chem_1d': 1}


def norm(toks):
    return ' '.join(v for k, v in toks if k != 'nl')


def find_src(cls):
    for fn in sorted(os.listdir(SRC)):
        if fn.endswith('.cpp'):
            s = open(os.path.join(SRC, fn)).read()
            if re.search(r'MASA::%s\s*<\s*Scalar\s*>::%s\s*\(' % (cls, cls), s):
                return fn
    raise ExtractionBreak('constructor of %s not found in src/*.cpp' % cls)


def rewrite(body, cls, decl, which, names):
    toks, nmsg = xapi.rewrite_output(tokenize(body))
    t = norm(toks)
    info = {'regs': [], 'vecs': [], 'sets': [], 'name': None, 'dim': None, 'notes': []}

    def sub(pat, rep):
        nonlocal t
        t, n = re.subn(pat, rep, t)
        return n
    sub(r'using std :: \w+ ;', '')
    m = re.search(r'this -> mmsname = ("[^"]*") ;', t)
    if m:
        info['name'] = m.group(1).strip('"')
        t = t.replace(m.group(0), 'mmsname_id = NAME_ID ;')
    m = re.search(r'this -> dimension = (\d+) ;', t)
    if m:
        info['dim'] = int(m.group(1))
    sub(r'this -> dimension = ', 'dimension = ')

    def reg(mm):
        info['regs'].append((mm.group(1), mm.group(2)))
        return 'store__register_var ( KEY_%s , ADDR_%s )' % (mm.group(1), mm.group(2))
    t = re.sub(r'this -> register_var \( "(\w+)" , & (\w+) \)', reg, t)

    def regv(mm):
        info['vecs'].append((mm.group(1), mm.group(2)))
        return 'store__register_vec ( KEY_%s , VADDR_%s )' % (mm.group(1), mm.group(2))
    t = re.sub(r'this -> register_vec \( "(\w+)" , (\w+) \)', regv, t)

    def setv(mm):
        info['sets'].append(mm.group(1))
        return 'store__set_var ( KEY_%s ,' % mm.group(1)
    t = re.sub(r'this -> set_var \( "(\w+)" ,', setv, t)
    sub(r'this -> init_var \( \)', '%s__init_var ( )' % cls)
    if sub(r'\bupdate \( [^;]* \) ;', '/* update(..) dropped: writes cached members only */ ;'):
        info['notes'].append('call to update(..) dropped (assumed to write only unregistered cache members)')
    # vectors of the class
    for v in decl.vectors:
        sub(r'\b%s \. resize \( ([^;]*?) \) ;' % v, r'VEC_RESIZE ( VADDR_%s , \1 ) ;' % v)
        sub(r'int \( %s \. size \( \) \)' % v, 'veclen [ VADDR_%s ]' % v)
        sub(r'\( Scalar \) %s \. size \( \)' % v, '( Sc ) veclen [ VADDR_%s ]' % v)
        sub(r'%s \. size \( \)' % v, 'veclen [ VADDR_%s ]' % v)
        sub(r'\b%s \[ ([^\]]*?) \] = ([^;]*) ;' % v, r'VEC_STORE ( VADDR_%s , \1 , \2 ) ;' % v)
        sub(r'\b%s \[ ([^\]]*?) \]' % v, r'VEC_LOAD ( VADDR_%s , \1 )' % v)
    sub(r'std :: vector < Scalar > [\w , ]+ ;', '')
    sub(r'std :: numeric_limits < Scalar > :: epsilon \( \)', 'VF_EPS ( )')
    sub(r'\( Scalar \)', '( Sc )')
    sub(r'\bScalar \(', 'SCAST (')
    sub(r'\bScalar\b', 'Sc')
    sub(r'this -> ', '')
    for bad in ('::', '->', '<<', 'std ', '"', ' new ', 'this'):
        if bad in t:
            k = t.index(bad)
            raise ExtractionBreak('%s %s: %r not covered by the rule table near: %s' % (cls, which, bad.strip(), t[max(0, k - 60):k + 60]))
    t = re.sub(r' ; ', ' ;\n', t)
    return t, info


PRELUDE = r'''
/* per-class constructor unit (double arithmetic, reference containers) -- extracted mechanically; DO NOT EDIT */
typedef double Sc;
int ghost_msg, ghost_exit;
#define GHOST_MSG(c) (ghost_msg |= (c))
#define GHOST_EXIT(c) (ghost_exit = 1000 + (c))
#define LIT(n, d) ((Sc)(n) / (Sc)(d))
#define SCAST(x) ((Sc)(x))
static Sc vabs(Sc a) { return a < 0 ? -a : a; }
#define VF_EPS() 2.220446049250313e-16
#include "vstore.h"
Sc heap[HMAX]; int vecval[VMAXV]; int veclen[VMAXV];
#define HEAP(a) heap[a]
#define ADDR_dummy 0
#define dummy heap[ADDR_dummy]
#define ADDR_LOCAL_dumvec 0
int __CPROVER_uninterpreted_vecval_resized(int, int);
#define VEC_CAP 64
Sc vecelem[VMAXV][VEC_CAP];                                    /* element contents of the class's own vector members (concrete here) */
#define VEC_RESIZE(a, n) (vecval[a] = __CPROVER_uninterpreted_vecval_resized(vecval[a], n), veclen[a] = (n))
#define VEC_COPY(dst, src) (vecval[dst] = vecval[src], veclen[dst] = veclen[src])
static int vec_ix(int a, int i) { __CPROVER_assert(0 <= i && i < veclen[a] && i < VEC_CAP, "std::vector<Scalar> index within size()"); return i; }
#define VEC_STORE(a, i, v) (vecelem[a][vec_ix(a, i)] = (v))
#define VEC_LOAD(a, i) vecelem[a][vec_ix(a, i)]
int num_vars, num_vec, dimension, mmsname_id;
VMAP_DECLARE_REF(varmap)
VMAP_DECLARE_REF(vecmap)
VVEC_DECLARE_REF(vararr)
VVEC_DECLARE_REF(vecarr)
'''


def class_unit(cls, d, store_text, dflt, names):
    src = find_src(cls)
    decl = xtract.parse_class_decl(open(os.path.join(SRC, 'smasa.h' if cls == 'cp_normal' else 'masa_internal.h')).read(), cls)
    bodies = {}
    for ret, name, args, body in find_functions(open(os.path.join(SRC, src)).read(), cls):
        if name in (cls, 'init_var'):
            bodies[name] = body
    if cls not in bodies or 'init_var' not in bodies:
        raise ExtractionBreak('%s: constructor or init_var not found' % cls)
    ctor_c, ci = rewrite(bodies[cls], cls, decl, 'constructor', names)
    init_c, ii = rewrite(bodies['init_var'], cls, decl, 'init_var', names)
    regs = ci['regs'] + ii['regs']
    keys = sorted({k for k, m in regs} | {k for k, m in ci['vecs']} | set(ii['sets']))
    members = list(decl.scalars)
    for k, m in regs:
        if m not in members:
            raise ExtractionBreak('%s: register_var("%s", &%s): %s is not a Scalar member of the class' % (cls, k, m, m))
    o = ['#define KMAX %d\n#define HMAX %d\n#define VMAXV %d' % (len(keys) + 3, len(members) + 3, max(len(regs), len(decl.vectors)) + 4)]
    o.append(PRELUDE)
    o.append('#define MASA_VAR_DEFAULT ((Sc)(%d) / (Sc)(%d))\n#define MASA_VAR_DEFAULT_INV ((Sc)(%d) / (Sc)(%d))' % (dflt[0], dflt[1], dflt[1], dflt[0]))
    for i, k in enumerate(keys):
        o.append('#define KEY_%s %d' % (k, i + 1))
    for i, m in enumerate(members):
        o.append('#define ADDR_%s %d' % (m, i + 1))
    for i, v in enumerate(decl.vectors):
        o.append('#define VADDR_%s %d' % (v, i + 1))
    o.append('#define NAME_ID 1')
    # the extracted store functions (no contracts here: bodies are executed)
    st = store_text
    st = re.sub(r'^CONTRACT_store__\w+\s*$', '', st, flags=re.M)
    st = re.sub(r'LOOP_store__\w+', '', st)
    o.append(st)
    for m in members:
        o.append('#define %s heap[ADDR_%s]' % (m, m))
    o.append('int %s__init_var(void);' % cls)
    o.append('/* %s::init_var  sha256=%s */\nint %s__init_var(void)\n{\n%s\n}\n' % (cls, hashlib.sha256(bodies['init_var'].encode()).hexdigest(), cls, init_c))
    o.append('/* %s::%s (constructor)  sha256=%s */\nvoid %s__ctor(void)\n{\n%s\n}\n' % (cls, cls, hashlib.sha256(bodies[cls].encode()).hexdigest(), cls, ctor_c))
    for m in members:
        o.append('#undef %s' % m)
    nreg = len(ci['regs'])
    regkeys = [k for k, m in ci['regs']]
    h = ['void h_%s(void)' % cls, '{',
         '  /* zero-initialised object memory is NOT assumed: scalar members start arbitrary; containers start empty (default-constructed) */',
         '  for (int k = 0; k < KMAX; k++) { varmap_present[k] = 0; vecmap_present[k] = 0; }',
         '  varmap_size = 0; vecmap_size = 0; vararr_n = 0; vecarr_n = 0; ghost_msg = 0; ghost_exit = 0;',
         '  store__ctor();', '  %s__ctor();' % cls,
         '  __CPROVER_assert(ghost_exit == 0 && (ghost_msg & 4) == 0, "(a) construction: no fatal message, no exit (every name registered once)");',
         '  __CPROVER_assert(num_vars == %d && varmap_size == %d, "(a) construction: num_vars == number of register_var calls");' % (nreg, nreg),
         '  __CPROVER_assert(num_vec == %d, "(a) construction: num_vec == number of register_vec calls");' % len(ci['vecs']),
         '  __CPROVER_assert(store__sanity_check() == 0, "(b) sanity_check() == 0 right after construction");',
         '  Sc v0[%d]; int l0[%d];' % (nreg + 1, len(ci['vecs']) + 1)]
    for i, k in enumerate(regkeys):
        h.append('  v0[%d] = store__get_var(KEY_%s);' % (i, k))
    for i, (k, v) in enumerate(ci['vecs']):
        h.append('  l0[%d] = veclen[VADDR_%s];' % (i, v))
    h.append('  /* any parameter values (also the marker), any vector lengths */')
    for i, k in enumerate(regkeys):
        h.append('  { Sc nd_%d; store__set_var(KEY_%s, nd_%d); }' % (i, k, i))
    for i, (k, v) in enumerate(ci['vecs']):
        h.append('  { int nl_%d; __CPROVER_assume(0 <= nl_%d && nl_%d < 100); veclen[VADDR_%s] = nl_%d; }' % (i, i, i, v, i))
    h.append('  int rc = %s__init_var();' % cls)
    h.append('  __CPROVER_assert(rc == 0, "(c) init_var() returns 0");')
    for i, k in enumerate(regkeys):
        h.append('  { Sc now_ = store__get_var(KEY_%s); __CPROVER_assert(now_ == v0[%d] || (now_ != now_ && v0[%d] != v0[%d]), "(d) init_var() restores %s");}' % (k, i, i, i, k))
    for i, (k, v) in enumerate(ci['vecs']):
        h.append('  __CPROVER_assert(veclen[VADDR_%s] == l0[%d], "(d) init_var() restores the length of %s");' % (v, i, k))
    h.append('  __CPROVER_assert((ghost_msg & 2) == 0, "(c) no MASA ERROR message from set_var (every name set by init_var is registered)");')
    h.append('  __CPROVER_assert(0, "canary");')
    h.append('}')
    o.append('\n'.join(h))
    fn = os.path.join(d, 'ctor_%s.c' % cls)
    open(fn, 'w').write('\n'.join(o) + '\n')
    unreg = [m for m in members if m not in {mm for k, mm in regs}]
    meta = {'class': cls, 'source': src, 'mmsname': ci['name'], 'dimension': ci['dim'], 'registered': nreg, 'vectors': len(ci['vecs']),
            'unregistered_members': unreg, 'notes': ci['notes'] + ii['notes'], 'set_by_init_var': len(ii['sets']),
            'not_set_by_init_var': [k for k in regkeys if k not in ii['sets']]}
    arities = sorted({a for nme, ars in decl.methods.items() if nme.startswith('eval_q_') or nme.startswith('eval_exact_') for a in ars})
    meta['evaluator_arities'] = arities
    return fn, meta, (70 if decl.vectors else max(len(keys) + 5, 8))


def name_job(d, names):
    """(f) every mmsname literal is its own normal form: the EXTRACTED masa_map is executed on each literal"""
    text, info = xstl.extract_masa_map(os.path.join(SRC, 'masa_map.cpp'))
    mx = max(len(n) for n in names) + 2
    o = ['#define VSTR_REFERENCE 1', '#define VNMAX %d' % mx, '#include "vstr.h"',
         '#define CONTRACT_uptolow\n#define CONTRACT_remove_line\n#define CONTRACT_remove_whitespace\n#define CONTRACT_masa_map',
         '#define LOOP_uptolow_1\n#define LOOP_remove_line_1\n#define LOOP_remove_whitespace_1',
         'void uptolow(vstr *); void remove_line(vstr *); void remove_whitespace(vstr *);', text, 'void h_names(void)\n{']
    for i, n in enumerate(names):
        o.append('  { vstr s = { "%s", %d }; masa_map(&s); __CPROVER_assert(s.len == %d, "(f) %s keeps its length under masa_map");' % (n, len(n), len(n), n))
        o.append('    const char *w = "%s"; for (int k = 0; k < %d; k++) __CPROVER_assert(s.d[k] == w[k], "(f) %s is its own normal form"); }' % (n, len(n), n))
    o.append('  __CPROVER_assert(0, "canary");\n}')
    fn = os.path.join(d, 'names.c')
    open(fn, 'w').write('\n'.join(o) + '\n')
    return fn, mx


def run_ctor_checks(rep, d, tier, only=None, want=('ctor', 'names', 'static')):
    store_text, sinfo, dflt = xstore.extract_store(os.path.join(SRC, 'masa_class.cpp'))
    _, _, cat = xreg.extract_registry(os.path.join(SRC, 'masa_core.cpp'))
    per, samples, not_under = [], [], []
    jobs = []
    metas = {}
    for cls in cat:
        if cls in FIXTURES:
            not_under.append('%s: deliberately broken self-test fixture (excluded by the property)' % cls)
            continue
        if cls in SPECIAL:
            not_under.append('%s: %s' % (cls, SPECIAL[cls]))
            continue
        if only and not re.search(only, 'ctor_' + cls):
            continue
        try:
            fn, meta, unw = class_unit(cls, d, store_text, dflt, cat)
        except ExtractionBreak as e:
            rep.undecide('extraction break (%s): %s' % (cls, e))
            continue
        metas[cls] = meta
        jobs.append((cls, fn, unw))
    tmo = 300 if tier == 'quick' else 1800

    def work(j):
        cls, fn, unw = j
        return j, cbmc_job(d, 'ctor_' + cls, fn, 'h_' + cls, enforce=None, smt=False, timeout=tmo, own_prefixes=('h_' + cls, 'store__', cls + '__', 'vararr_at', 'vecarr_at', 'vec_ix'),
                           extra_cbmc=['--unwind', str(unw + 2), '--unwinding-assertions'], nondet_static=False, canary_timeout=120)

    n_dis = 0
    results = []
    if 'ctor' in want and jobs:
        with ThreadPoolExecutor(max_workers=NCPU) as ex:
            results = list(ex.map(work, jobs))
    for (cls, fn, unw), r in results:
        meta = metas[cls]
        per.append({'function': 'ctor+init_var of ' + cls, 'status': r.status, 'backend': 'sat', 'seconds': round(r.seconds, 2), 'canary': r.canary,
                    'obligations': len(r.obligations), 'meta': meta})
        if r.status == 'discharged' and r.canary == 'reachable':
            n_dis += len(r.obligations)
            if len(samples) < 3:
                samples.append({'class': cls, 'obligations': sorted({o[1] for o in r.obligations if o[1].startswith('(')})[:8]})
            continue
        payload = {'function': 'constructor/init_var of ' + cls, 'class': cls, 'status': r.status, 'failed_obligations': ['%s: %s' % (a, b) for a, b, c in r.obligations if c == 'FAILURE'] or r.failed,
                   'detail': r.detail, 'verifier_output': r.log[-8000:], 'checker_cmd': r.cmd}
        if r.status == 'refuted':
            rep.violation('ctor_%s' % cls, payload, no_input=True)
        else:
            rep.undecide('ctor_%s: %s (%s) canary=%s' % (cls, r.status, r.detail, r.canary))
    # (e) static facts from the extraction (dimension / arity / names unique)
    names = {}
    if 'static' in want:
        for cls, meta in metas.items():
            nm = meta['mmsname']
            if nm in names:
                rep.violation('catalogue.unique_name.%s' % nm, {'function': 'catalogue', 'detail': 'name %s used by %s and %s' % (nm, names[nm], cls)}, no_input=True)
            names[nm] = cls
            m = re.search(r'_(\d)d(_|$)', cls)
            exp = int(m.group(1)) if m else DOC_DIM.get(cls)
            if exp is None:
                not_under.append('%s: no documented dimension on record (dimension literal %s not checked)' % (cls, meta['dimension']))
            elif meta['dimension'] != exp:
                rep.violation('ctor_%s.dimension' % cls, {'function': cls, 'detail': 'dimension literal %s, documented %s' % (meta['dimension'], exp)}, no_input=True)
            elif meta['evaluator_arities'] and not all(a in (exp, exp + 1) or a == 0 for a in meta['evaluator_arities'] if a <= exp + 1) :
                rep.violation('ctor_%s.arity' % cls, {'function': cls, 'detail': 'evaluator arities %s vs dimension %s' % (meta['evaluator_arities'], exp)}, no_input=True)
            else:
                n_dis += 1
    # (f) normal forms
    if 'names' in want and metas and not only:
        allnames = [m['mmsname'] for m in metas.values() if m['mmsname']]
        fn, mx = name_job(d, allnames)
        r = cbmc_job(d, 'names', fn, 'h_names', enforce=None, smt=False, timeout=tmo, own_prefixes=('h_names', 'masa_map', 'uptolow', 'remove_'),
                     extra_cbmc=['--unwind', str(mx + 2), '--unwinding-assertions'], nondet_static=False, canary_timeout=120)
        per.append({'function': 'masa_map(<each catalogue name>) == name', 'status': r.status, 'backend': 'sat', 'seconds': round(r.seconds, 2), 'canary': r.canary,
                    'obligations': len(r.obligations), 'names': allnames})
        if r.status == 'discharged' and r.canary == 'reachable':
            n_dis += len(r.obligations)
        elif r.status == 'refuted':
            rep.violation('catalogue.normal_form', {'function': 'catalogue names', 'failed_obligations': ['%s: %s' % (a, b) for a, b, c in r.obligations if c == 'FAILURE'],
                                                    'verifier_output': r.log[-6000:]}, no_input=True)
        else:
            rep.undecide('catalogue names: %s (%s)' % (r.status, r.detail))
    return n_dis, per, samples, not_under
