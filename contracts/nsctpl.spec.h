/* nsctpl.spec.h -- contracts for the power-law compressible Navier-Stokes solution (properties C03, C07):
 *   nsctpl::primitive<Scalar>, nsctpl::manufactured_solution<Scalar, 1>  (src/nsctpl_fwd.hpp, src/nsctpl.hpp) and the
 *   forwarders of MASA::navierstokes_4d_compressible_powerlaw<Scalar>     (src/masa_internal.h).
 * Extracted by vf/xnsctpl.py (rule N).  The proof is modular exactly as the code is:
 *
 *   UNIT primitive             each of the 11 member functions == the matching component (v,t,x,xx,xy,xz,y,yy,yz,z,zz) of the
 *                              jet of the documented 7-term cosine field, for all 39 parameters and Lx,Ly,Lz.  Proven once,
 *                              it holds for all five instances rho,u,v,w,T (the parameters are universally quantified).
 *   UNIT manufactured_solution calls to the primitives are UNINTERPRETED functions of (x,y,z,t) (rule N1/N2): e,p,mu,rho*,
 *                              grad_*, Q_* are checked against the CALLEE CONTRACT of unit primitive -- "these 11 numbers are
 *                              the jet of one field" -- and not against its body.  Q_* == the Navier-Stokes residual over the
 *                              abstract jets RHO,U,V,W,TT whose components are exactly those uninterpreted values.
 *   UNIT navierstokes_4d_...   every inline forwarder == the quantity its NAME prescribes (eval_q_rho_u -> x-momentum residual,
 *                              eval_g_t -> grad T, eval_exact_p -> p, ...), its callee replaced by the callee's contract.
 *
 * Oracle = the property statements:
 *   mass      rho_t + div(rho u)
 *   momentum  (rho u_i)_t + sum_j (rho u_i u_j)_,j + p_,i - sum_j tau_ij,j     tau_ij = mu (u_i,j + u_j,i) + lambda delta_ij div u
 *   energy    (rho e)_t + div(rho e u) + div(p u) + div q - div(tau . u)        q = -kappa grad T
 *   p = rho R T,  e = R T/(gamma-1) + |u|^2/2,  mu = mu_r (T/T_r)^beta,  lambda = lambda_r mu/mu_r,  kappa = kappa_r mu/mu_r
 *   grad_*(.., i): i = 1,2,3 -> d/dx, d/dy, d/dz of the field; any other i -> NaN sentinel (ghost_nan), independent of the point.
 *
 * TRUSTED (assumed, not proved) in addition to lib/real.h and lib/jets.h:
 *   (P) power rule for the symbolic exponent: d/dT pow(T/T_r, beta) = beta * pow(T/T_r, beta-1) / T_r   (T/T_r > 0);
 *       pow with a symbolic exponent is an uninterpreted function (vpow), (P) is the only fact about it that is used.
 *   (S) the spatial arguments of the cosine form are the scaled ones b*(2 pi/L)*x: the comment in nsctpl_fwd.hpp writes
 *       cos(b_x*x + c_x) and documents Lx,Ly,Lz as "domain extents"; the accompanying paper (Ulerich et al. 2012) and
 *       operator() scale by 2 pi/L.  C03/C07 only need that the ten derivative members differentiate operator().
 *   (T) twopi is a free real in the proof (any value); natively it is 8*atan(1) as in nsctpl.hpp (xnsctpl checks the text).
 */
#ifndef VF_NSCTPL_SPEC_H
#define VF_NSCTPL_SPEC_H

/* ======================================================== UNIT primitive ======================================================== */
#if defined(UNIT_primitive)
#ifdef VF_NATIVE
#define twopi (8.0L * atanl(1.0L))
#else
Sc twopi;      /* rule N8: static const member primitive<Scalar>::twopi */
#endif

/* factor jets: cos(c + b (2pi/Lx) x), cos(e + d (2pi/Ly) y), ..., cos(g + f t) */
#define PCOS_X(r, b, c) JLIN(r##_q, (c) + (b) * kx_ * x, (b) * kx_, 0, 0, 0); JCOS(r, r##_q)
#define PCOS_Y(r, b, c) JLIN(r##_q, (c) + (b) * ky_ * y, 0, (b) * ky_, 0, 0); JCOS(r, r##_q)
#define PCOS_Z(r, b, c) JLIN(r##_q, (c) + (b) * kz_ * z, 0, 0, (b) * kz_, 0); JCOS(r, r##_q)
#define PCOS_T(r, f, g) JLIN(r##_q, (g) + (f) * t, 0, 0, 0, (f)); JCOS(r, r##_q)
/*       a_0                                         *cos(f_0 *t + g_0 )
 *     + a_x  * cos(b_x *x + c_x )                   *cos(f_x *t + g_x )
 *     + a_xy * cos(b_xy*x + c_xy)*cos(d_xy*y + e_xy)*cos(f_xy*t + g_xy)
 *     + a_xz * cos(b_xz*x + c_xz)*cos(d_xz*z + e_xz)*cos(f_xz*t + g_xz)
 *     + a_y  * cos(b_y *y + c_y )                   *cos(f_y *t + g_y )
 *     + a_yz * cos(b_yz*y + c_yz)*cos(d_yz*z + e_yz)*cos(f_yz*t + g_yz)
 *     + a_z  * cos(b_z *z + c_z )                   *cos(f_z *t + g_z )          (nsctpl_fwd.hpp; x,y,z scaled per (S)) */
#define PRIM_FIELD \
  Sc kx_ = twopi * vinv(Lx), ky_ = twopi * vinv(Ly), kz_ = twopi * vinv(Lz); \
  PCOS_T(k0t, f_0, g_0);                                                                    JSCALE(t0_, a_0, k0t); \
  PCOS_X(kx1, b_x, c_x);                              PCOS_T(kxt, f_x, g_x);     JMUL(mx_, kx1, kxt);                          JSCALE(tx_, a_x, mx_); \
  PCOS_X(kxy1, b_xy, c_xy); PCOS_Y(kxy2, d_xy, e_xy); PCOS_T(kxyt, f_xy, g_xy); JMUL(mxy1, kxy1, kxy2); JMUL(mxy_, mxy1, kxyt); JSCALE(txy_, a_xy, mxy_); \
  PCOS_X(kxz1, b_xz, c_xz); PCOS_Z(kxz2, d_xz, e_xz); PCOS_T(kxzt, f_xz, g_xz); JMUL(mxz1, kxz1, kxz2); JMUL(mxz_, mxz1, kxzt); JSCALE(txz_, a_xz, mxz_); \
  PCOS_Y(ky1, b_y, c_y);                              PCOS_T(kyt, f_y, g_y);     JMUL(my_, ky1, kyt);                          JSCALE(ty_, a_y, my_); \
  PCOS_Y(kyz1, b_yz, c_yz); PCOS_Z(kyz2, d_yz, e_yz); PCOS_T(kyzt, f_yz, g_yz); JMUL(myz1, kyz1, kyz2); JMUL(myz_, myz1, kyzt); JSCALE(tyz_, a_yz, myz_); \
  PCOS_Z(kz1, b_z, c_z);                              PCOS_T(kzt, f_z, g_z);     JMUL(mz_, kz1, kzt);                          JSCALE(tz_, a_z, mz_); \
  JADD(s1_, t0_, tx_); JADD(s2_, s1_, txy_); JADD(s3_, s2_, txz_); JADD(s4_, s3_, ty_); JADD(s5_, s4_, tyz_); JADD(F, s5_, tz_)

static Sc prim_spec_v(Sc x, Sc y, Sc z, Sc t) { PRIM_FIELD; return F_v; }
static Sc prim_spec_t(Sc x, Sc y, Sc z, Sc t) { PRIM_FIELD; return F_t; }
static Sc prim_spec_x(Sc x, Sc y, Sc z, Sc t) { PRIM_FIELD; return F_x; }
static Sc prim_spec_xx(Sc x, Sc y, Sc z, Sc t) { PRIM_FIELD; return F_xx; }
static Sc prim_spec_xy(Sc x, Sc y, Sc z, Sc t) { PRIM_FIELD; return F_xy; }
static Sc prim_spec_xz(Sc x, Sc y, Sc z, Sc t) { PRIM_FIELD; return F_xz; }
static Sc prim_spec_y(Sc x, Sc y, Sc z, Sc t) { PRIM_FIELD; return F_y; }
static Sc prim_spec_yy(Sc x, Sc y, Sc z, Sc t) { PRIM_FIELD; return F_yy; }
static Sc prim_spec_yz(Sc x, Sc y, Sc z, Sc t) { PRIM_FIELD; return F_yz; }
static Sc prim_spec_z(Sc x, Sc y, Sc z, Sc t) { PRIM_FIELD; return F_z; }
static Sc prim_spec_zz(Sc x, Sc y, Sc z, Sc t) { PRIM_FIELD; return F_zz; }

#define PRIMREQ REQ(Lx != 0 && Ly != 0 && Lz != 0)
#define CONTRACT_primitive__value_4 PRIMREQ ENS_EQ(prim_spec_v(x, y, z, t)) FRAME()
#define CONTRACT_primitive___t_4    PRIMREQ ENS_EQ(prim_spec_t(x, y, z, t)) FRAME()
#define CONTRACT_primitive___x_4    PRIMREQ ENS_EQ(prim_spec_x(x, y, z, t)) FRAME()
#define CONTRACT_primitive___xx_4   PRIMREQ ENS_EQ(prim_spec_xx(x, y, z, t)) FRAME()
#define CONTRACT_primitive___xy_4   PRIMREQ ENS_EQ(prim_spec_xy(x, y, z, t)) FRAME()
#define CONTRACT_primitive___xz_4   PRIMREQ ENS_EQ(prim_spec_xz(x, y, z, t)) FRAME()
#define CONTRACT_primitive___y_4    PRIMREQ ENS_EQ(prim_spec_y(x, y, z, t)) FRAME()
#define CONTRACT_primitive___yy_4   PRIMREQ ENS_EQ(prim_spec_yy(x, y, z, t)) FRAME()
#define CONTRACT_primitive___yz_4   PRIMREQ ENS_EQ(prim_spec_yz(x, y, z, t)) FRAME()
#define CONTRACT_primitive___z_4    PRIMREQ ENS_EQ(prim_spec_z(x, y, z, t)) FRAME()
#define CONTRACT_primitive___zz_4   PRIMREQ ENS_EQ(prim_spec_zz(x, y, z, t)) FRAME()
#endif /* UNIT_primitive */

/* ================================================== UNIT manufactured_solution ================================================== */
#if defined(UNIT_manufactured_solution)
#ifdef VF_NATIVE
#define twopi (8.0L * atanl(1.0L))
#endif
/* generated by vf/xnsctpl.py into the unit directory on every run: the 5 x 11 primitive members as uninterpreted functions
 * (CBMC) / as the natively compiled text of unit primitive with the registered parameter names (native twin) */
#include "nsctpl_prims.h"

#define PRIMUF(f, c) __CPROVER_uninterpreted_prim_##f##_##c
/* abstract jet J of the primitive instance f: its 11 components are the values the callee contract (unit primitive) speaks about */
#define JFROMPRIM(J, f) JD(J); \
  J##_v = PRIMUF(f, v)(x, y, z, t); J##_t = PRIMUF(f, _t)(x, y, z, t); \
  J##_x = PRIMUF(f, _x)(x, y, z, t); J##_y = PRIMUF(f, _y)(x, y, z, t); J##_z = PRIMUF(f, _z)(x, y, z, t); \
  J##_xx = PRIMUF(f, _xx)(x, y, z, t); J##_yy = PRIMUF(f, _yy)(x, y, z, t); J##_zz = PRIMUF(f, _zz)(x, y, z, t); \
  J##_xy = PRIMUF(f, _xy)(x, y, z, t); J##_xz = PRIMUF(f, _xz)(x, y, z, t); J##_yz = PRIMUF(f, _yz)(x, y, z, t)
#define NSCTPL_FIELDS JFROMPRIM(RHO, rho); JFROMPRIM(U, u); JFROMPRIM(V, v); JFROMPRIM(W, w); JFROMPRIM(TT, T)

/* ideal gas, total specific energy */
#define NSCTPL_PRESSURE JMUL(RT_, RHO, TT); JSCALE(P, R, RT_)
#define NSCTPL_ENERGY \
  JMUL(UU_, U, U); JMUL(VV_, V, V); JMUL(WW_, W, W); JADD(Q1_, UU_, VV_); JADD(Q2_, Q1_, WW_); JSCALE(KE_, LIT(1, 2), Q2_); \
  JSCALE(EI_, R * vinv(gamma - 1), TT); JADD(E, EI_, KE_)
/* power-law transport coefficients; derivative of pow by the trusted power rule (P) */
#define NSCTPL_TRANSPORT \
  Sc th_ = TT_v * vinv(T_r), tri_ = vinv(T_r); \
  Sc pw0_ = vpow(th_, beta), pw1_ = vpow(th_, beta - 1), pw2_ = vpow(th_, beta - 2); \
  JCHAIN(MU, TT, mu_r * pw0_, mu_r * beta * pw1_ * tri_, mu_r * beta * (beta - 1) * pw2_ * tri_ * tri_); \
  JSCALE(LAM, lambda_r * vinv(mu_r), MU); JSCALE(KAP, kappa_r * vinv(mu_r), MU)
/* Newtonian stress tau_ij = mu (u_i,j + u_j,i) + lambda delta_ij div u: values and the first derivatives the divergence needs */
#define NSCTPL_STRESS \
  Sc dv_ = U_x + V_y + W_z, dv_x_ = U_xx + V_xy + W_xz, dv_y_ = U_xy + V_yy + W_yz, dv_z_ = U_xz + V_yz + W_zz; \
  Sc txx_ = 2 * MU_v * U_x + LAM_v * dv_, tyy_ = 2 * MU_v * V_y + LAM_v * dv_, tzz_ = 2 * MU_v * W_z + LAM_v * dv_; \
  Sc txy_ = MU_v * (U_y + V_x), txz_ = MU_v * (U_z + W_x), tyz_ = MU_v * (V_z + W_y); \
  Sc txx_x_ = 2 * (MU_x * U_x + MU_v * U_xx) + LAM_x * dv_ + LAM_v * dv_x_; \
  Sc tyy_y_ = 2 * (MU_y * V_y + MU_v * V_yy) + LAM_y * dv_ + LAM_v * dv_y_; \
  Sc tzz_z_ = 2 * (MU_z * W_z + MU_v * W_zz) + LAM_z * dv_ + LAM_v * dv_z_; \
  Sc txy_x_ = MU_x * (U_y + V_x) + MU_v * (U_xy + V_xx), txy_y_ = MU_y * (U_y + V_x) + MU_v * (U_yy + V_xy); \
  Sc txz_x_ = MU_x * (U_z + W_x) + MU_v * (U_xz + W_xx), txz_z_ = MU_z * (U_z + W_x) + MU_v * (U_zz + W_xz); \
  Sc tyz_y_ = MU_y * (V_z + W_y) + MU_v * (V_yz + W_yy), tyz_z_ = MU_z * (V_z + W_y) + MU_v * (V_zz + W_yz)
#define NSCTPL_CONVECTION \
  JMUL(RU_, RHO, U); JMUL(RV_, RHO, V); JMUL(RW_, RHO, W); \
  JMUL(RUU_, RU_, U); JMUL(RUV_, RU_, V); JMUL(RUW_, RU_, W); JMUL(RVV_, RV_, V); JMUL(RVW_, RV_, W); JMUL(RWW_, RW_, W)

static Sc ms_spec_rho(Sc x, Sc y, Sc z, Sc t) { NSCTPL_FIELDS; return RHO_v; }
static Sc ms_spec_u(Sc x, Sc y, Sc z, Sc t) { NSCTPL_FIELDS; return U_v; }
static Sc ms_spec_v(Sc x, Sc y, Sc z, Sc t) { NSCTPL_FIELDS; return V_v; }
static Sc ms_spec_w(Sc x, Sc y, Sc z, Sc t) { NSCTPL_FIELDS; return W_v; }
static Sc ms_spec_T(Sc x, Sc y, Sc z, Sc t) { NSCTPL_FIELDS; return TT_v; }
static Sc ms_spec_e(Sc x, Sc y, Sc z, Sc t) { NSCTPL_FIELDS; NSCTPL_ENERGY; return E_v; }
static Sc ms_spec_p(Sc x, Sc y, Sc z, Sc t) { NSCTPL_FIELDS; NSCTPL_PRESSURE; return P_v; }
static Sc ms_spec_mu(Sc x, Sc y, Sc z, Sc t) { NSCTPL_FIELDS; NSCTPL_TRANSPORT; return MU_v; }
static Sc ms_spec_rhou(Sc x, Sc y, Sc z, Sc t) { NSCTPL_FIELDS; JMUL(RU_, RHO, U); return RU__v; }
static Sc ms_spec_rhov(Sc x, Sc y, Sc z, Sc t) { NSCTPL_FIELDS; JMUL(RV_, RHO, V); return RV__v; }
static Sc ms_spec_rhow(Sc x, Sc y, Sc z, Sc t) { NSCTPL_FIELDS; JMUL(RW_, RHO, W); return RW__v; }
static Sc ms_spec_rhoe(Sc x, Sc y, Sc z, Sc t) { NSCTPL_FIELDS; NSCTPL_ENERGY; JMUL(RE_, RHO, E); return RE__v; }
/* gradients, 1-based direction index as the property states it (the code's IndexBase is read from masa_internal.h) */
#define NS_IN(i) ((i) >= 1 && (i) <= 3)
#define NS_PICK(i, J) ((i) == 1 ? J##_x : (i) == 2 ? J##_y : J##_z)
static Sc ms_spec_grad_rho(Sc x, Sc y, Sc z, Sc t, int i) { NSCTPL_FIELDS; return NS_PICK(i, RHO); }
static Sc ms_spec_grad_u(Sc x, Sc y, Sc z, Sc t, int i) { NSCTPL_FIELDS; return NS_PICK(i, U); }
static Sc ms_spec_grad_v(Sc x, Sc y, Sc z, Sc t, int i) { NSCTPL_FIELDS; return NS_PICK(i, V); }
static Sc ms_spec_grad_w(Sc x, Sc y, Sc z, Sc t, int i) { NSCTPL_FIELDS; return NS_PICK(i, W); }
static Sc ms_spec_grad_T(Sc x, Sc y, Sc z, Sc t, int i) { NSCTPL_FIELDS; return NS_PICK(i, TT); }
static Sc ms_spec_grad_e(Sc x, Sc y, Sc z, Sc t, int i) { NSCTPL_FIELDS; NSCTPL_ENERGY; return NS_PICK(i, E); }
static Sc ms_spec_grad_p(Sc x, Sc y, Sc z, Sc t, int i) { NSCTPL_FIELDS; NSCTPL_PRESSURE; return NS_PICK(i, P); }
static Sc ms_spec_grad_mu(Sc x, Sc y, Sc z, Sc t, int i) { NSCTPL_FIELDS; NSCTPL_TRANSPORT; return NS_PICK(i, MU); }
/* sources = Navier-Stokes residual of the fields */
static Sc ms_spec_Q_rho(Sc x, Sc y, Sc z, Sc t)
{ NSCTPL_FIELDS; JMUL(RU_, RHO, U); JMUL(RV_, RHO, V); JMUL(RW_, RHO, W); return RHO_t + RU__x + RV__y + RW__z; }
static Sc ms_spec_Q_rhou(Sc x, Sc y, Sc z, Sc t)
{ NSCTPL_FIELDS; NSCTPL_PRESSURE; NSCTPL_TRANSPORT; NSCTPL_STRESS; NSCTPL_CONVECTION;
  return RU__t + RUU__x + RUV__y + RUW__z + P_x - (txx_x_ + txy_y_ + txz_z_); }
static Sc ms_spec_Q_rhov(Sc x, Sc y, Sc z, Sc t)
{ NSCTPL_FIELDS; NSCTPL_PRESSURE; NSCTPL_TRANSPORT; NSCTPL_STRESS; NSCTPL_CONVECTION;
  return RV__t + RUV__x + RVV__y + RVW__z + P_y - (txy_x_ + tyy_y_ + tyz_z_); }
static Sc ms_spec_Q_rhow(Sc x, Sc y, Sc z, Sc t)
{ NSCTPL_FIELDS; NSCTPL_PRESSURE; NSCTPL_TRANSPORT; NSCTPL_STRESS; NSCTPL_CONVECTION;
  return RW__t + RUW__x + RVW__y + RWW__z + P_z - (txz_x_ + tyz_y_ + tzz_z_); }
static Sc ms_spec_Q_rhoe(Sc x, Sc y, Sc z, Sc t)
{ NSCTPL_FIELDS; NSCTPL_PRESSURE; NSCTPL_ENERGY; NSCTPL_TRANSPORT; NSCTPL_STRESS;
  JMUL(RE_, RHO, E); JMUL(REU_, RE_, U); JMUL(REV_, RE_, V); JMUL(REW_, RE_, W);       /* rho e u */
  JMUL(PU_, P, U); JMUL(PV_, P, V); JMUL(PW_, P, W);                                   /* p u */
  Sc divq_ = -(KAP_x * TT_x + KAP_v * TT_xx) - (KAP_y * TT_y + KAP_v * TT_yy) - (KAP_z * TT_z + KAP_v * TT_zz);   /* div(-kappa grad T) */
  Sc dtu_ = (txx_x_ * U_v + txx_ * U_x + txy_x_ * V_v + txy_ * V_x + txz_x_ * W_v + txz_ * W_x)       /* div(tau . u) */
          + (txy_y_ * U_v + txy_ * U_y + tyy_y_ * V_v + tyy_ * V_y + tyz_y_ * W_v + tyz_ * W_y)
          + (txz_z_ * U_v + txz_ * U_z + tyz_z_ * V_v + tyz_ * V_z + tzz_z_ * W_v + tzz_ * W_z);
  return RE__t + REU__x + REV__y + REW__z + PU__x + PV__y + PW__z + divq_ - dtu_; }

/* admissibility: the denominators of the constitutive laws */
#define MSREQ_E  REQ(gamma != 1)
#define MSREQ_MU REQ(T_r != 0)
#define MSREQ_Q  REQ(T_r != 0 && mu_r != 0)
#define MSREQ_QE REQ(T_r != 0 && mu_r != 0 && gamma != 1)
/* NaN sentinel: extracted as VF_NAN() = { ghost_nan = 1; placeholder value }.  In range the value is the component and no
 * sentinel is raised; out of range the sentinel is raised whatever the point (the placeholder value is unconstrained). */
#ifdef VF_NATIVE
#define NS_SENTINEL ((Sc)NAN)
#else
#define NS_SENTINEL RET
#endif
#define NS_GRAD(spec, i) ENS_EQ(NS_IN(i) ? spec : NS_SENTINEL) \
  ENS(NS_IN(i) ? ghost_nan == __CPROVER_old(ghost_nan) : ghost_nan == 1) FRAME(ghost_nan)

#define CONTRACT_manufactured_solution__e_4       MSREQ_E  ENS_EQ(ms_spec_e(x, y, z, t)) FRAME()
#define CONTRACT_manufactured_solution__p_4                ENS_EQ(ms_spec_p(x, y, z, t)) FRAME()
#define CONTRACT_manufactured_solution__mu_4      MSREQ_MU ENS_EQ(ms_spec_mu(x, y, z, t)) FRAME()
#define CONTRACT_manufactured_solution__rhou_4             ENS_EQ(ms_spec_rhou(x, y, z, t)) FRAME()
#define CONTRACT_manufactured_solution__rhov_4             ENS_EQ(ms_spec_rhov(x, y, z, t)) FRAME()
#define CONTRACT_manufactured_solution__rhow_4             ENS_EQ(ms_spec_rhow(x, y, z, t)) FRAME()
#define CONTRACT_manufactured_solution__rhoe_4    MSREQ_E  ENS_EQ(ms_spec_rhoe(x, y, z, t)) FRAME()
#define CONTRACT_manufactured_solution__grad_rho_5         NS_GRAD(ms_spec_grad_rho(x, y, z, t, index), index)
#define CONTRACT_manufactured_solution__grad_u_5           NS_GRAD(ms_spec_grad_u(x, y, z, t, index), index)
#define CONTRACT_manufactured_solution__grad_v_5           NS_GRAD(ms_spec_grad_v(x, y, z, t, index), index)
#define CONTRACT_manufactured_solution__grad_w_5           NS_GRAD(ms_spec_grad_w(x, y, z, t, index), index)
#define CONTRACT_manufactured_solution__grad_T_5           NS_GRAD(ms_spec_grad_T(x, y, z, t, index), index)
#define CONTRACT_manufactured_solution__grad_e_5  MSREQ_E  NS_GRAD(ms_spec_grad_e(x, y, z, t, index), index)
#define CONTRACT_manufactured_solution__grad_p_5           NS_GRAD(ms_spec_grad_p(x, y, z, t, index), index)
#define CONTRACT_manufactured_solution__grad_mu_5 MSREQ_MU NS_GRAD(ms_spec_grad_mu(x, y, z, t, index), index)
#define CONTRACT_manufactured_solution__Q_rho_4            ENS_EQ(ms_spec_Q_rho(x, y, z, t)) FRAME()
#define CONTRACT_manufactured_solution__Q_rhou_4  MSREQ_Q  ENS_EQ(ms_spec_Q_rhou(x, y, z, t)) FRAME()
#define CONTRACT_manufactured_solution__Q_rhov_4  MSREQ_Q  ENS_EQ(ms_spec_Q_rhov(x, y, z, t)) FRAME()
#define CONTRACT_manufactured_solution__Q_rhow_4  MSREQ_Q  ENS_EQ(ms_spec_Q_rhow(x, y, z, t)) FRAME()
#define CONTRACT_manufactured_solution__Q_rhoe_4  MSREQ_QE ENS_EQ(ms_spec_Q_rhoe(x, y, z, t)) FRAME()
#endif /* UNIT_manufactured_solution */

/* =========================================== UNIT navierstokes_4d_compressible_powerlaw =========================================== */
#if defined(UNIT_navierstokes_4d_compressible_powerlaw)
/* the MASA naming convention: eval_exact_<f> = field f, eval_q_<rho|rho_u|rho_v|rho_w|rho_e> = residual of that conservation
 * law, eval_g_<f>(.., i) = d f / d x_i.  Each forwarder must return the quantity its own name designates. */
#define CONTRACT_navierstokes_4d_compressible_powerlaw__eval_exact_rho_4 ENS_EQ(ms_spec_rho(x, y, z, t)) FRAME()
#define CONTRACT_navierstokes_4d_compressible_powerlaw__eval_exact_u_4   ENS_EQ(ms_spec_u(x, y, z, t)) FRAME()
#define CONTRACT_navierstokes_4d_compressible_powerlaw__eval_exact_v_4   ENS_EQ(ms_spec_v(x, y, z, t)) FRAME()
#define CONTRACT_navierstokes_4d_compressible_powerlaw__eval_exact_w_4   ENS_EQ(ms_spec_w(x, y, z, t)) FRAME()
#define CONTRACT_navierstokes_4d_compressible_powerlaw__eval_exact_t_4   ENS_EQ(ms_spec_T(x, y, z, t)) FRAME()
#define CONTRACT_navierstokes_4d_compressible_powerlaw__eval_exact_p_4   ENS_EQ(ms_spec_p(x, y, z, t)) FRAME()
#define CONTRACT_navierstokes_4d_compressible_powerlaw__eval_q_rho_4              ENS_EQ(ms_spec_Q_rho(x, y, z, t)) FRAME()
#define CONTRACT_navierstokes_4d_compressible_powerlaw__eval_q_rho_u_4   MSREQ_Q  ENS_EQ(ms_spec_Q_rhou(x, y, z, t)) FRAME()
#define CONTRACT_navierstokes_4d_compressible_powerlaw__eval_q_rho_v_4   MSREQ_Q  ENS_EQ(ms_spec_Q_rhov(x, y, z, t)) FRAME()
#define CONTRACT_navierstokes_4d_compressible_powerlaw__eval_q_rho_w_4   MSREQ_Q  ENS_EQ(ms_spec_Q_rhow(x, y, z, t)) FRAME()
#define CONTRACT_navierstokes_4d_compressible_powerlaw__eval_q_rho_e_4   MSREQ_QE ENS_EQ(ms_spec_Q_rhoe(x, y, z, t)) FRAME()
#define CONTRACT_navierstokes_4d_compressible_powerlaw__eval_g_rho_5     NS_GRAD(ms_spec_grad_rho(x, y, z, t, i), i)
#define CONTRACT_navierstokes_4d_compressible_powerlaw__eval_g_u_5       NS_GRAD(ms_spec_grad_u(x, y, z, t, i), i)
#define CONTRACT_navierstokes_4d_compressible_powerlaw__eval_g_v_5       NS_GRAD(ms_spec_grad_v(x, y, z, t, i), i)
#define CONTRACT_navierstokes_4d_compressible_powerlaw__eval_g_w_5       NS_GRAD(ms_spec_grad_w(x, y, z, t, i), i)
#define CONTRACT_navierstokes_4d_compressible_powerlaw__eval_g_t_5       NS_GRAD(ms_spec_grad_T(x, y, z, t, i), i)
#define CONTRACT_navierstokes_4d_compressible_powerlaw__eval_g_p_5       NS_GRAD(ms_spec_grad_p(x, y, z, t, i), i)
#endif /* UNIT_navierstokes_4d_compressible_powerlaw */
#endif
