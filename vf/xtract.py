#!/usr/bin/env python3
"""xtract -- mechanical extraction of MASA member functions to C for CBMC (DESIGN.md 3.1).

Not a C++ parser and not a model: a token-level rewriter.  For one class it copies each member
function body verbatim from /repo/src and applies the rule table (T,L,U,F,P,D,O,M,X,K).  Every
rule counts its hits; anything the table does not know (an identifier that is not a member,
local, argument or prelude function; a C++-only token) aborts with ExtractionBreak (exit 2 in
the driver) -- never a violation, never a silent pass.
"""
import re, sys, hashlib
from fractions import Fraction


class ExtractionBreak(Exception):
    pass


TOK_RE = re.compile(r'''
    (?P<ws>[ \t\r]+)
  | (?P<nl>\n)
  | (?P<str>"(?:\\.|[^"\\])*")
  | (?P<chr>'(?:\\.|[^'\\])*')
  | (?P<num>(?:\d+\.\d*|\.\d+|\d+)(?:[eE][+-]?\d+)?[fFlLuU]*)
  | (?P<id>[A-Za-z_][A-Za-z_0-9]*)
  | (?P<op>::|->|<<=|>>=|<<|>>|<=|>=|==|!=|&&|\|\||\+\+|--|\+=|-=|\*=|/=|%=|[-+*/%<>=!&|^~?:;,.(){}\[\]\#])
''', re.X)


def strip_comments(s):
    out = []
    i = 0
    n = len(s)
    while i < n:
        c = s[i]
        if c == '"' or c == "'":
            j = i + 1
            while j < n and s[j] != c:
                if s[j] == '\\':
                    j += 1
                j += 1
            out.append(s[i:j + 1])
            i = j + 1
        elif s.startswith('//', i):
            j = s.find('\n', i)
            if j < 0:
                j = n
            i = j
        elif s.startswith('/*', i):
            j = s.find('*/', i + 2)
            if j < 0:
                raise ExtractionBreak('unterminated comment')
            out.append(' ' + '\n' * s.count('\n', i, j))
            i = j + 2
        else:
            out.append(c)
            i += 1
    return ''.join(out)


def tokenize(s):
    toks = []
    pos = 0
    while pos < len(s):
        m = TOK_RE.match(s, pos)
        if not m:
            raise ExtractionBreak('cannot tokenize at: %r' % s[pos:pos + 40])
        pos = m.end()
        k = m.lastgroup
        if k == 'ws':
            continue
        toks.append((k, m.group()))
    return toks


def match_close(toks, i, o='(', c=')'):
    """toks[i] is an opener; return index of its matching closer"""
    depth = 0
    j = i
    while j < len(toks):
        v = toks[j][1]
        if toks[j][0] == 'op':
            if v == o:
                depth += 1
            elif v == c:
                depth -= 1
                if depth == 0:
                    return j
        j += 1
    raise ExtractionBreak('unbalanced %s' % o)


def match_brace_text(src, i):
    """src[i-1] == '{' ; return index just past the matching '}' (comments already stripped)"""
    depth = 1
    n = len(src)
    while depth:
        if i >= n:
            raise ExtractionBreak('unbalanced braces')
        c = src[i]
        if c == '"' or c == "'":
            j = i + 1
            while src[j] != c:
                if src[j] == '\\':
                    j += 1
                j += 1
            i = j
        elif c == '{':
            depth += 1
        elif c == '}':
            depth -= 1
        i += 1
    return i


def lit_fraction(text):
    t = text.rstrip('fFlLuU')
    f = Fraction(t)
    return f


def is_float_lit(text):
    t = text.rstrip('fFlLuU')
    return ('.' in t) or ('e' in t.lower())


MATH_FUNCS = {'cos': 'vcos', 'sin': 'vsin', 'exp': 'vexp', 'log': 'vlog', 'sqrt': 'vsqrt', 'tanh': 'vtanh',
              'asin': 'vasin', 'acos': 'vacos', 'atan': 'vatan', 'erf': 'verf', 'abs': 'vabs', 'fabs': 'vabs',
              'pow': 'vpow'}
C_KEYWORDS = {'if', 'else', 'for', 'while', 'do', 'return', 'switch', 'case', 'default', 'break', 'continue', 'int', 'const',
              'Sc', 'void', 'long', 'unsigned'}
PRELUDE_IDS = {'LIT', 'true', 'false', 'VF_IDX', 'VF_TOINT', 'SCAST', 'GHOST_MSG', 'GHOST_EXIT', 'vpowi', 'vinv', 'pi', 'PI', 'ghost_nan', 'VF_EPS',
               'VF_NAN'} | set(MATH_FUNCS.values())


class ClassDecl:
    def __init__(self, name, scalars, ints, vectors, methods, others):
        self.name = name
        self.scalars = scalars      # [name]
        self.ints = ints
        self.vectors = vectors
        self.methods = methods      # {name: set(arity)}
        self.others = others        # unrecognised declaration statements (reported)


def parse_class_decl(header_text, cls):
    h = strip_comments(header_text)
    m = re.search(r'\bclass\s+%s\b[^;{]*\{' % re.escape(cls), h)
    if not m:
        raise ExtractionBreak('class %s not found in header' % cls)
    end = match_brace_text(h, m.end())
    body = h[m.end():end - 1]
    toks = [t for t in tokenize(body) if t[0] != 'nl']
    # split into statements at depth 0 by ';' (skipping inline bodies {...})
    stmts = []
    cur = []
    i = 0
    while i < len(toks):
        k, v = toks[i]
        if v == '{':
            j = match_close(toks, i, '{', '}')
            cur.append(('op', '{}'))
            i = j + 1
            # an inline function body ends the statement
            stmts.append(cur)
            cur = []
            if i < len(toks) and toks[i][1] == ';':
                i += 1
            continue
        if v == ';':
            stmts.append(cur)
            cur = []
        elif v == ':' and cur and cur[-1][1] in ('public', 'private', 'protected'):
            cur = []
        else:
            cur.append(toks[i])
        i += 1
    scalars, ints, vectors, methods, others = [], [], [], {}, []
    for st in stmts:
        if not st:
            continue
        vals = [v for _, v in st]
        if vals[0] == 'using' or vals[0] == 'friend' or vals[0] == 'typedef':
            continue
        if '(' in vals:
            # method declaration:  [virtual] RET name ( args )
            p = vals.index('(')
            name = vals[p - 1]
            q = match_close(st, p)
            args = vals[p + 1:q]
            ar = 0 if not args or args == ['void'] else 1 + sum(1 for a in args if a == ',')
            # function-pointer params contain nested parens: count commas at depth 0 only
            if '(' in args:
                depth = 0
                ar = 1
                for a in args:
                    if a == '(':
                        depth += 1
                    elif a == ')':
                        depth -= 1
                    elif a == ',' and depth == 0:
                        ar += 1
            methods.setdefault(name, set()).add(ar)
            continue
        if vals[0] in ('Scalar', 'double', 'float') and all(re.match(r'^[A-Za-z_]\w*$|^,$', v) for v in vals[1:]):
            scalars += [v for v in vals[1:] if v != ',']
        elif vals[0] in ('int', 'bool') and all(re.match(r'^[A-Za-z_]\w*$|^,$', v) for v in vals[1:]):
            ints += [v for v in vals[1:] if v != ',']      # bool members are int members (true/false are 1/0 in the preludes)
        elif vals[:5] == ['std', '::', 'vector', '<', 'Scalar'] and vals[5] == '>':
            vectors += [v for v in vals[6:] if v != ',']
        else:
            others.append(' '.join(vals))
    return ClassDecl(cls, scalars, ints, vectors, methods, others)


class Func:
    def __init__(self):
        self.cname = self.name = self.ret = None
        self.args = []          # [(ctype, name)]
        self.body_src = ''      # verbatim source text (comments stripped)
        self.body_c = ''
        self.sha = ''
        self.hits = {}
        self.notes = []
        self.writes_registered = []   # names written through set_var inside the body
        self.calls = []         # cnames of member functions called
        self.statics = []       # rule SLs: [(global name, type, source name, depends-on)]


def find_functions(src_text, cls):
    """yield (ret, name, argtext, body_text) for each out-of-line member definition of cls"""
    s = strip_comments(src_text)
    pat = re.compile(r'template\s*<\s*typename\s+Scalar\s*>\s*(?P<ret>[A-Za-z_][\w\s\*]*?)?\s*MASA::%s\s*<\s*Scalar\s*>\s*::\s*(?P<name>~?\w+)\s*\(' % re.escape(cls))
    for m in pat.finditer(s):
        # matching ')' of the argument list
        i = m.end()
        depth = 1
        while depth:
            if s[i] == '(':
                depth += 1
            elif s[i] == ')':
                depth -= 1
            i += 1
        argtext = s[m.end():i - 1]
        j = i
        while s[j] in ' \t\r\n':
            j += 1
        if s[j] != '{':
            raise ExtractionBreak('%s::%s: expected { after signature' % (cls, m.group('name')))
        end = match_brace_text(s, j + 1)
        yield (m.group('ret') or '').strip(), m.group('name'), argtext, s[j + 1:end - 1]


def parse_args(argtext, fname):
    args = []
    t = argtext.strip()
    if not t or t == 'void':
        return args
    # split on commas at depth 0
    parts = []
    depth = 0
    cur = ''
    for ch in t:
        if ch == '(':
            depth += 1
        elif ch == ')':
            depth -= 1
        if ch == ',' and depth == 0:
            parts.append(cur)
            cur = ''
        else:
            cur += ch
    parts.append(cur)
    for p in parts:
        p = p.strip()
        m = re.match(r'^(Scalar|double|float)\s+(\w+)$', p)
        if m:
            args.append(('Sc', m.group(2), 'scalar'))
            continue
        m = re.match(r'^int\s+(\w+)$', p)
        if m:
            args.append(('int', m.group(1), 'int'))
            continue
        m = re.match(r'^Scalar\s*\(\s*\*\s*(\w+)\s*\)\s*\(\s*Scalar\s*\)$', p)
        if m:
            args.append(('FUNCPTR', m.group(1), 'funcptr'))
            continue
        raise ExtractionBreak('%s: unsupported parameter %r' % (fname, p))
    return args


def msg_class(strings):
    c = 1
    for s in strings:
        if 'FATAL' in s:
            c |= 4
        if re.search(r'ERROR|Error|error', s):
            c |= 2
    return c


def rewrite_body(body, cls, decl, fname, args, all_method_cnames, extra_ids=(), ghost_capture=(), mutable=None, statics_out=None):
    """apply the rule table to one function body; returns (c_text, hits, notes, writes, calls)"""
    hits = {}
    notes = []
    writes = []
    calls = []

    def hit(r, n=1):
        hits[r] = hits.get(r, 0) + n

    toks = [t_ for t_ in tokenize(body) if t_[0] != 'nl']     # line structure is re-created when rendering
    vals = lambda: [v for _, v in toks]

    # ---- rule U: using-declarations and std:: qualifiers
    out = []
    i = 0
    while i < len(toks):
        k, v = toks[i]
        if v == 'using':
            j = i
            while toks[j][1] != ';':
                j += 1
            hit('U')
            i = j + 1
            continue
        if v == '::' and (not out or out[-1][0] != 'id'):
            i += 1          # leading ::std
            continue
        if v == 'std' and i + 1 < len(toks) and toks[i + 1][1] == '::':
            hit('U')
            i += 2
            continue
        out.append(toks[i])
        i += 1
    toks = out

    # ---- rule O: output statements -> ghost message class
    out = []
    i = 0
    while i < len(toks):
        k, v = toks[i]
        if v in ('cout', 'cerr') and toks[i + 1][1] == '<<':
            j = i
            strs = []
            while toks[j][1] != ';':
                if toks[j][0] == 'str':
                    strs.append(toks[j][1])
                j += 1
            out += [('id', 'GHOST_MSG'), ('op', '('), ('num', str(msg_class(strs))), ('op', ')'), ('op', ';')]
            hit('O')
            i = j + 1
            continue
        if v == 'printf' and toks[i + 1][1] == '(':
            j = match_close(toks, i + 1)
            strs = [t[1] for t in toks[i:j] if t[0] == 'str']
            out += [('id', 'GHOST_MSG'), ('op', '('), ('num', str(msg_class(strs))), ('op', ')')]
            hit('O')
            i = j + 1
            continue
        out.append(toks[i])
        i += 1
    toks = out

    # ---- rule X: masa_exit(c) -> ghost event
    for i, (k, v) in enumerate(toks):
        if v == 'masa_exit':
            toks[i] = ('id', 'GHOST_EXIT')
            hit('X')

    # ---- rule M(1): this-> removal
    out = []
    i = 0
    while i < len(toks):
        if toks[i][1] == 'this' and toks[i + 1][1] == '->':
            hit('M')
            i += 2
            continue
        out.append(toks[i])
        i += 1
    toks = out

    # ---- numeric_limits<Scalar>::epsilon() / quiet_NaN()
    out = []
    i = 0
    while i < len(toks):
        if toks[i][1] == 'numeric_limits':
            j = i
            while toks[j][1] != '(':
                j += 1
            what = toks[j - 1][1]
            j = match_close(toks, j)
            if what == 'epsilon':
                out += [('id', 'VF_EPS'), ('op', '('), ('op', ')')]
            elif what == 'quiet_NaN':
                out += [('id', 'VF_NAN'), ('op', '('), ('op', ')')]
            else:
                raise ExtractionBreak('%s: numeric_limits::%s' % (fname, what))
            hit('L')
            i = j + 1
            continue
        out.append(toks[i])
        i += 1
    toks = out

    # ---- rule T/L: Scalar(...) functional casts, (Scalar) casts, declarations, literals
    out = []
    i = 0
    local_types = {}
    while i < len(toks):
        k, v = toks[i]
        if v in ('Scalar', 'double', 'float'):
            nxt = toks[i + 1][1] if i + 1 < len(toks) else ''
            prv = out[-1][1] if out else ''
            if nxt == '(':
                j = match_close(toks, i + 1)
                inner = toks[i + 2:j]
                if len(inner) == 1 and inner[0][0] == 'num':
                    f = lit_fraction(inner[0][1])
                    out.append(('atom', 'LIT(%d,%d)' % (f.numerator, f.denominator)))
                    hit('L')
                    i = j + 1
                    continue
                if len(inner) == 2 and inner[0][1] == '-' and inner[1][0] == 'num':
                    f = -lit_fraction(inner[1][1])
                    out.append(('atom', 'LIT(%d,%d)' % (f.numerator, f.denominator)))
                    hit('L')
                    i = j + 1
                    continue
                out.append(('id', 'SCAST'))
                hit('T')
                if v != 'Scalar':
                    notes.append('cast to %s treated as exact' % v)
                i += 1
                continue
            if prv == '(' and nxt == ')':
                # C-style cast (Scalar)expr : drop the cast (int -> real is exact)
                out.pop()
                hit('T')
                i += 2
                continue
            # declaration
            out.append(('id', 'Sc'))
            hit('T')
            if v != 'Scalar':
                notes.append('local declared %s treated as Scalar (rule T): %s' % (v, nxt))
            # record declared names until ';'
            j = i + 1
            depth = 0
            expect_name = True
            while toks[j][1] != ';' or depth:
                tv = toks[j][1]
                if tv == '(':
                    depth += 1
                elif tv == ')':
                    depth -= 1
                elif depth == 0 and tv == ',':
                    expect_name = True
                elif depth == 0 and expect_name and toks[j][0] == 'id':
                    local_types[tv] = 'Sc'
                    expect_name = False
                j += 1
            i += 1
            continue
        if v == 'int':
            nxt = toks[i + 1][1]
            if nxt == '(':
                # int(expr) functional cast
                out += [('op', '('), ('id', 'int'), ('op', ')')]
                i += 1
                continue
            j = i + 1
            depth = 0
            expect_name = True
            while toks[j][1] not in (';',) or depth:
                tv = toks[j][1]
                if tv == '(':
                    depth += 1
                elif tv == ')':
                    depth -= 1
                elif depth == 0 and tv == ',':
                    expect_name = True
                elif depth == 0 and expect_name and toks[j][0] == 'id':
                    local_types[tv] = 'int'
                    expect_name = False
                j += 1
            out.append(toks[i])
            i += 1
            continue
        if k == 'num' and is_float_lit(v):
            f = lit_fraction(v)
            out.append(('atom', 'LIT(%d,%d)' % (f.numerator, f.denominator)))
            hit('L')
            i += 1
            continue
        out.append(toks[i])
        i += 1
    toks = out

    int_ids = {n for (t, n, kk) in args if kk == 'int'} | {n for n, t in local_types.items() if t == 'int'} | set(decl.ints)
    funcptrs = {n for (t, n, kk) in args if kk == 'funcptr'}

    # ---- rule F/P/K/M(2): function names
    for i, (k, v) in enumerate(toks):
        if k != 'id':
            continue
        nxt = toks[i + 1][1] if i + 1 < len(toks) else ''
        if nxt != '(':
            continue
        if v in MATH_FUNCS:
            toks[i] = ('id', MATH_FUNCS[v])
            hit('P' if v == 'pow' else 'F')
        elif v in funcptrs:
            toks[i] = ('id', '__CPROVER_uninterpreted_' + v)
            hit('K')
        elif v in decl.methods and v not in ('set_var', 'get_var'):
            j = match_close(toks, i + 1)
            inner = toks[i + 2:j]
            ar = 0
            if inner:
                depth = 0
                ar = 1
                for t in inner:
                    if t[1] == '(':
                        depth += 1
                    elif t[1] == ')':
                        depth -= 1
                    elif t[1] == ',' and depth == 0:
                        ar += 1
            cn = '%s__%s_%d' % (cls, v, ar)
            toks[i] = ('id', cn)
            calls.append(cn)
            hit('M')

    # ---- rule M(3): set_var("name", v) inside an evaluator: write to a registered parameter
    out = []
    i = 0
    while i < len(toks):
        if toks[i][1] == 'set_var' and toks[i + 1][1] == '(' and toks[i + 2][0] == 'str':
            name = toks[i + 2][1].strip('"')
            if toks[i + 3][1] != ',':
                raise ExtractionBreak('%s: set_var shape' % fname)
            j = match_close(toks, i + 1)
            out += [('id', 'VF_SETVAR'), ('op', '('), ('id', name), ('op', ',')] + toks[i + 4:j] + [('op', ')')]
            writes.append(name)
            hit('M')
            i = j + 1
            continue
        out.append(toks[i])
        i += 1
    toks = out

    # ---- vector members: v.size() -> v_size ; v[i] stays (array)
    out = []
    i = 0
    while i < len(toks):
        if toks[i][1] in decl.vectors and i + 4 < len(toks) and toks[i + 1][1] == '.' and toks[i + 2][1] == 'size' \
                and toks[i + 3][1] == '(' and toks[i + 4][1] == ')':
            prev2 = [t_[1] for t_ in out[-2:]]
            prev4 = [t_[1] for t_ in out[-4:]]
            as_int = prev2 == ['int', '('] or prev4 == ['(', 'int', ')', '(']
            # an int context (loop bound) gets the int length, arithmetic gets its real-valued twin V_size_r (CBMC cannot convert a symbolic int to a rational)
            out.append(('id', toks[i][1] + ('_size' if as_int else '_size_r')))
            hit('V')
            i += 5
            continue
        out.append(toks[i])
        i += 1
    toks = out
    # ---- vector element access: v[e] -> v[VF_IDX(e, v_size)]  (obligation: 0 <= e < v.size(), i.e. operator[] stays inside the container)
    out = []
    i = 0
    while i < len(toks):
        if toks[i][1] in decl.vectors and i + 1 < len(toks) and toks[i + 1][1] == '[':
            j = match_close(toks, i + 1, '[', ']')
            out += [toks[i], ('op', '['), ('id', 'VF_IDX'), ('op', '(')] + toks[i + 2:j] + [('op', ','), ('id', toks[i][1] + '_size'), ('op', ')'), ('op', ']')]
            hit('Vidx')
            i = j + 1
            continue
        out.append(toks[i])
        i += 1
    toks = out
    for vname in decl.vectors:
        int_ids.add(vname + '_size')
    # ---- (int)(E) with a Scalar-typed E: truncation of a real to int is outside the arithmetic model -> VF_TOINT(E) (an unknown int in CBMC, a C cast natively)
    sc_ids = set(decl.scalars) | {n for n, t in local_types.items() if t == 'Sc'} | {n for (t, n, kk) in args if kk == 'scalar'}
    out = []
    i = 0
    while i < len(toks):
        if [t_[1] for t_ in toks[i:i + 4]] == ['(', 'int', ')', '(']:
            j = match_close(toks, i + 3)
            if any(t_[0] == 'id' and t_[1] in sc_ids for t_ in toks[i + 4:j]):
                out += [('id', 'VF_TOINT'), ('op', '(')] + toks[i + 4:j] + [('op', ')')]
                hit('Vtoint')
                i = j + 1
                continue
        out.append(toks[i])
        i += 1
    toks = out

    # ---- rule D: division
    def primary_end(i):
        """index just past the primary expression starting at toks[i]"""
        k, v = toks[i]
        if v in ('-', '+'):
            return primary_end(i + 1)
        if v == '(':
            j = match_close(toks, i)
            # a C cast "(int)" followed by a primary
            if j == i + 2 and toks[i + 1][1] in ('int',):
                return primary_end(j + 1)
            return j + 1
        if k in ('id', 'num', 'atom'):
            j = i + 1
            while j < len(toks) and toks[j][1] in ('(', '['):
                j = match_close(toks, j, toks[j][1], ')' if toks[j][1] == '(' else ']') + 1
            return j
        raise ExtractionBreak('%s: cannot parse denominator at %r' % (fname, ' '.join(t[1] for t in toks[i:i + 6])))

    def primary_start(j):
        """index of the first token of the primary expression that ends just before toks[j]"""
        i = j - 1
        k, v = toks[i]
        if v in (')', ']'):
            depth = 0
            while True:
                tv = toks[i][1]
                if tv in (')', ']'):
                    depth += 1
                elif tv in ('(', '['):
                    depth -= 1
                    if depth == 0:
                        break
                i -= 1
            # function call / index: include the callee name (and further call groups)
            while i > 0 and (toks[i - 1][0] in ('id',) and toks[i - 1][1] not in C_KEYWORDS or toks[i - 1][1] in (')', ']')):
                if toks[i - 1][0] == 'id':
                    i -= 1
                    break
                i = primary_start(i)
                break
            return i
        if k in ('id', 'num', 'atom'):
            return i
        raise ExtractionBreak('%s: cannot parse numerator before /' % fname)

    def is_int_expr(seq):
        """conservative: True only if every leaf is an int literal or int-typed identifier"""
        if not seq:
            return False
        for idx, (k, v) in enumerate(seq):
            if k == 'num':
                if is_float_lit(v):
                    return False
            elif k == 'atom':
                return False
            elif k == 'id':
                if v == 'int':
                    continue
                if v not in int_ids:
                    # (int)(expr) cast makes the group int
                    return False
            elif v in ('(', ')', '+', '-', '*', '/', '%'):
                continue
            else:
                return False
        return True

    def starts_with_int_cast(seq):
        return len(seq) >= 3 and seq[0][1] == '(' and seq[1][1] == 'int' and seq[2][1] == ')'

    i = 0
    while i < len(toks):
        if toks[i][1] == '/=':
            raise ExtractionBreak('%s: /= not supported' % fname)
        if toks[i][1] == '/' and toks[i][0] == 'op':
            e = primary_end(i + 1)
            den = toks[i + 1:e]
            # left operand of the multiplicative chain
            s = primary_start(i)
            while s > 0 and toks[s - 1][1] in ('*', '/', '%') and toks[s - 1][0] == 'op':
                s = primary_start(s - 1)
            num = toks[s:i]
            den_int = is_int_expr(den) or starts_with_int_cast(den)
            num_int = is_int_expr(num) or (starts_with_int_cast(num) and all(t[1] != '*' for t in num[3:]))
            if den_int and num_int:
                hit('Dint')
                notes.append('integer division kept as C integer division: %s / %s' % (' '.join(t[1] for t in num), ' '.join(t[1] for t in den)))
                i += 1
                continue
            if len(den) == 1 and den[0][0] == 'atom' and den[0][1].startswith('LIT(') and not den[0][1].startswith('LIT(0,'):
                # division by a non-zero literal: multiply by the exact reciprocal literal
                n_, d_ = den[0][1][4:-1].split(',')
                if int(n_) < 0:
                    n_, d_ = str(-int(n_)), str(-int(d_))
                toks[i:e] = [('op', '*'), ('atom', 'LIT(%s,%s)' % (d_, n_))]
                hit('Dlit')
                i += 2
                continue
            toks[i:e] = [('op', '*'), ('id', 'vinv'), ('op', '(')] + den + [('op', ')')]
            hit('D')
            i += 3
            continue
        i += 1

    # ---- rule Lf: a literal times a literal is the exact product literal (`15.0 / 14.0` is LIT(15,1) * LIT(1,14) after rule D).
    # Exact rational arithmetic on the literal texts; also a work-around: CBMC 6.11's simplifier dies (std_expr.cpp) when IT folds a
    # negative integer constant with a fraction (`- 15 * (1/14) * V`), so no constant-only product is left for it to fold.
    i = 0
    while i + 2 < len(toks):
        a, o_, b = toks[i], toks[i + 1], toks[i + 2]
        if a[0] == 'atom' and b[0] == 'atom' and o_ == ('op', '*') and a[1].startswith('LIT(') and b[1].startswith('LIT(') and \
                (i == 0 or toks[i - 1][1] not in ('/', '%')):
            from fractions import Fraction
            n1, d1 = a[1][4:-1].split(',')
            n2, d2 = b[1][4:-1].split(',')
            fr = Fraction(int(n1), int(d1)) * Fraction(int(n2), int(d2))
            toks[i:i + 3] = [('atom', 'LIT(%d,%d)' % (fr.numerator, fr.denominator))]
            hit('Lf')
            continue
        i += 1

    # ---- rule SL: function-local statics.  C++: the initialiser runs once per process, on the first execution of the declaration,
    # and the object is shared by every instance of the class.
    #  SLc  initialiser mentions no argument, local, mutable member or member function: the value is the same in every call ->
    #       `static` dropped, an ordinary (re-initialised) local; nothing is assumed or lost.
    #  SLs  anything else: the variable is PERSISTENT STATE initialised in the state of the first call.  It becomes two file-scope
    #       objects <fn>__<v> / <fn>__<v>__init (both arbitrary on entry under --nondet-static: "an earlier call in this process may
    #       have initialised it, in any state") and the declaration becomes `if (!init) { v = <initialiser>; init = 1; }`.
    if any(v == 'static' for _, v in toks):
        mut = set(decl.scalars) | set(decl.ints) if mutable is None else set(mutable)
        stateful_ids = mut | set(decl.vectors) | set(local_types) | {n for (_, n, _) in args} | set(all_method_cnames)
        out = []
        i = 0
        renames = {}
        const_statics = set()        # SLc statics: constants, so a later static initialised from them is constant too
        while i < len(toks):
            k, v = toks[i]
            if v in ('static', 'const') and any(toks[j][1] == 'static' for j in range(i, min(i + 2, len(toks)))) and v != 'Sc':
                j = i
                quals = []
                while toks[j][1] in ('static', 'const'):
                    quals.append(toks[j][1])
                    j += 1
                if 'static' not in quals:
                    out.append(toks[i]); i += 1
                    continue
                if toks[j][1] not in ('Sc', 'int') or toks[j + 1][0] != 'id' or toks[j + 2][1] != '=':
                    raise ExtractionBreak('%s: function-local static of a shape outside rule SL near: %s' % (fname, ' '.join(t[1] for t in toks[i:i + 8])))
                ty, name = toks[j][1], toks[j + 1][1]
                e = j + 3
                depth = 0
                while toks[e][1] != ';' or depth:
                    if toks[e][1] == ',' and depth == 0:
                        raise ExtractionBreak('%s: function-local static with several declarators (rule SL)' % fname)
                    depth += toks[e][1] in ('(', '[') and 1 or 0
                    depth -= toks[e][1] in (')', ']') and 1 or 0
                    e += 1
                init = toks[j + 3:e]
                dep = sorted({tv for tk, tv in init if tk == 'id' and ((tv in stateful_ids and tv not in const_statics) or renames.get(tv))})
                if not dep:
                    out += [t_ for t_ in toks[i:e + 1] if t_[1] != 'static']
                    hit('SLc')
                    const_statics.add(name)
                    notes.append('function-local static %s: initialiser is state-independent, treated as an ordinary local (rule SLc)' % name)
                else:
                    g = '%s__%s' % (fname, name)
                    renames[name] = g
                    local_types.pop(name, None)
                    out += [('id', 'if'), ('op', '('), ('op', '!'), ('id', g + '__init'), ('op', ')'), ('op', '{'), ('id', g), ('op', '=')] + \
                           [(tk, renames.get(tv, tv) if tk == 'id' else tv) for tk, tv in init] + \
                           [('op', ';'), ('id', g + '__init'), ('op', '='), ('num', '1'), ('op', ';'), ('op', '}')]
                    hit('SLs')
                    notes.append('function-local static %s initialised from %s: persistent state outside the object (rule SLs), arbitrary on entry' % (name, dep))
                    if statics_out is not None:
                        statics_out.append((g, ty, name, dep))
                    extra_ids = list(extra_ids) + [g, g + '__init']
                i = e + 1
                continue
            if k == 'id' and v in renames:
                out.append(('id', renames[v]))
            else:
                out.append(toks[i])
            i += 1
        toks = out

    # ---- final vetting: every identifier must be known
    known = set(C_KEYWORDS) | PRELUDE_IDS | set(decl.scalars) | set(decl.ints) | set(decl.vectors) | \
        {v + '_size' for v in decl.vectors} | {v + '_size_r' for v in decl.vectors} | set(local_types) | {n for (_, n, _) in args} | set(all_method_cnames) | \
        set(extra_ids) | {'VF_SETVAR'}
    for idx, (k, v) in enumerate(toks):
        if k == 'id':
            if v.startswith('__CPROVER_uninterpreted_') or v.startswith('LOOP_'):
                continue
            if v not in known:
                raise ExtractionBreak('%s: identifier %r is not a member, local, argument or prelude function '
                                      '(reference to state outside the class?)' % (fname, v))
        elif k == 'op' and v in ('::', '->', '<<', '>>', '.', '#', '~'):
            raise ExtractionBreak('%s: C++ token %r not covered by the rule table' % (fname, v))
        elif k == 'str' or k == 'chr':
            raise ExtractionBreak('%s: string literal outside an output statement' % fname)
        elif k == 'id' and v in ('new', 'delete', 'template', 'try', 'catch', 'throw'):
            raise ExtractionBreak('%s: C++ keyword %s' % (fname, v))

    # ---- rule G: ghost capture of locals at return sites (instrumentation only: `ghost_<v> = <v> ;` before each return)
    if ghost_capture:
        gt = []
        for idx_, (k_, v_) in enumerate(toks):
            if k_ == 'id' and v_ == 'return':
                cap = []
                for gv in ghost_capture:
                    cap += [('id', 'ghost_' + gv), ('op', '='), ('id', gv), ('op', ';')]
                # a return that is the single statement of an if needs braces
                gt += [('op', '{')] + cap
                j_ = idx_
                while toks[j_][1] != ';':
                    j_ += 1
                gt += toks[idx_:j_ + 1] + [('op', '}')]
                hit('G')
                skip_until = j_
                gt.append(('skip', j_))
                continue
            gt.append((k_, v_))
        # remove duplicated tokens (those between return and ;) marked by skip
        out_ = []
        i_ = 0
        res_ = []
        skip_to = -1
        for idx_, (k_, v_) in enumerate(toks):
            pass
        # simpler second pass: rebuild directly
        res_ = []
        i_ = 0
        while i_ < len(toks):
            k_, v_ = toks[i_]
            if k_ == 'id' and v_ == 'return':
                j_ = i_
                while toks[j_][1] != ';':
                    j_ += 1
                res_.append(('op', '{'))
                for gv in ghost_capture:
                    res_ += [('id', 'ghost_' + gv), ('op', '='), ('id', gv), ('op', ';')]
                res_ += toks[i_:j_ + 1] + [('op', '}')]
                i_ = j_ + 1
                continue
            res_.append(toks[i_])
            i_ += 1
        toks = res_
    # ---- loop contracts: LOOP_<cname>_<k> after the header of the k-th for/while loop (defined empty unless the spec defines it)
    lt = []
    i = 0
    nloop = 0
    while i < len(toks):
        if toks[i][0] == 'id' and toks[i][1] in ('for', 'while') and i + 1 < len(toks) and toks[i + 1][1] == '(':
            j = match_close(toks, i + 1)
            if toks[i][1] == 'while' and j + 1 < len(toks) and toks[j + 1][1] == ';':
                lt += toks[i:j + 1]
                i = j + 1
                continue
            nloop += 1
            lt += toks[i:j + 1] + [('id', 'LOOP_%s_%d' % (fname, nloop))]
            i = j + 1
            continue
        lt.append(toks[i])
        i += 1
    toks = lt
    if nloop:
        hit('loops', nloop)
    # ---- render
    parts = []
    depth_ = 0
    for k, v in toks:
        parts.append(v)
        if v == '(':
            depth_ += 1
        elif v == ')':
            depth_ -= 1
        if (v == ';' and depth_ == 0) or v in ('{', '}'):
            parts.append('\n')
    text = ''
    for p in parts:
        if p == '\n':
            text = text.rstrip(' ') + '\n'
        else:
            text += p + ' '
    text = re.sub(r'\n{3,}', '\n\n', text)
    return text, hits, notes, writes, calls


def extract_class(src_path, header_path, cls, skip=('init_var',), only=None, extra_ids=(), ghost_capture=None):
    src = open(src_path).read()
    decl = parse_class_decl(open(header_path).read(), cls)
    funcs = []
    raw = list(find_functions(src, cls))
    if not raw:
        raise ExtractionBreak('no member functions of %s found in %s' % (cls, src_path))
    cnames = set()
    parsed = []
    # members that can change during the life of an object: registered parameters (set_var) and anything a member function assigns;
    # the rest is set by the constructor only (e.g. PI) -- used by rule SL
    mutable = set()
    for ret, name, argtext, body in raw:
        mutable |= set(re.findall(r'register_var\s*\(\s*"\w+"\s*,\s*&\s*(?:this\s*->\s*)?(\w+)', body))      # this class's own registrations (constructor)
        if name != cls and not name.startswith('~'):
            mutable |= set(re.findall(r'(?<![\w.>])(?:this\s*->\s*)?(\w+)\s*(?:=(?!=)|\+=|-=|\*=|/=|\+\+|--)', body)) & (set(decl.scalars) | set(decl.ints))
    for ret, name, argtext, body in raw:
        if name == cls or name.startswith('~'):
            continue           # constructor / destructor: C11 unit
        if name in skip:
            continue
        if only and name not in only:
            continue
        args = parse_args(argtext, '%s::%s' % (cls, name))
        cname = '%s__%s_%d' % (cls, name, len(args))
        if cname in cnames:
            # overloads of equal arity (Scalar,Scalar,int) vs (Scalar,Scalar,Scalar): add type suffix
            cname += '_' + ''.join('i' if a[2] == 'int' else 's' for a in args)
        cnames.add(cname)
        parsed.append((ret, name, args, body, cname))
    # also methods declared but defined elsewhere are not callable: only cnames
    for ret, name, args, body, cname in parsed:
        f = Func()
        f.name, f.cname, f.args = name, cname, args
        f.ret = 'Sc' if ret in ('Scalar', 'double', 'float') else ret
        if f.ret not in ('Sc', 'int', 'void'):
            raise ExtractionBreak('%s: return type %r' % (cname, ret))
        f.body_src = body
        f.sha = hashlib.sha256(body.encode()).hexdigest()
        f.body_c, f.hits, f.notes, f.writes_registered, f.calls = rewrite_body(
            body, cls, decl, cname, args, cnames, list(extra_ids) + ['ghost_' + g for g in (ghost_capture or {}).get(cname, ())],
            ghost_capture=(ghost_capture or {}).get(cname, ()), mutable=mutable, statics_out=f.statics)
        funcs.append(f)
    return decl, funcs


def render_unit(cls, decl, funcs, spec_include, prelude='real.h', defines=()):
    """C text of the unit: prelude, members as globals, spec header, prototypes, functions with CONTRACT_ macros"""
    o = []
    o.append('/* unit %s -- extracted mechanically from /repo/src by vf/xtract.py; DO NOT EDIT */' % cls)
    for d in defines:
        o.append('#define %s' % d)
    o.append('#include "%s"' % prelude)
    o.append('/* data members of %s<Scalar> (one object == these globals; all start nondeterministic) */' % cls)
    for m in decl.scalars:
        o.append('Sc %s;' % m)
    for m in decl.ints:
        o.append('int %s;' % m)
    for v in decl.vectors:
        o.append('#define VF_VECMAX 8')
        o.append('Sc %s[VF_VECMAX]; int %s_size; Sc %s_size_r;   /* length as int and as its real-valued twin (contracts require them equal) */' % (v, v, v))
    o.append('#define VF_SETVAR(n, v) (n = (v))')
    for f in funcs:
        for g, ty, name, dep in getattr(f, 'statics', []):
            o.append('%s %s; int %s__init;   /* rule SLs: function-local static `%s` of %s (process-wide state; arbitrary on entry) */' % (ty, g, g, name, f.cname))
    o.append('#include "jets.h"')
    for f in funcs:
        o.append('%s %s(%s);' % (f.ret, f.cname, sig(f)))
    if spec_include:
        o.append('#include "%s"' % spec_include)
    for f in funcs:
        for k_ in range(1, f.hits.get('loops', 0) + 1):
            o.append('#ifndef LOOP_%s_%d\n#define LOOP_%s_%d\n#endif' % (f.cname, k_, f.cname, k_))
        o.append('#ifndef CONTRACT_%s\n#define CONTRACT_%s\n#define NOCONTRACT_%s 1\n#endif' % (f.cname, f.cname, f.cname))
        o.append('/* %s::%s  sha256(source body)=%s */' % (cls, f.name, f.sha))
        o.append('%s %s(%s)\nCONTRACT_%s\n{%s}\n' % (f.ret, f.cname, sig(f), f.cname, f.body_c))
    return '\n'.join(o) + '\n'


def sig(f):
    if not f.args:
        return 'void'
    parts = []
    for t, n, k in f.args:
        if k == 'funcptr':
            parts.append('int %s' % n)       # rule K: the callback is an uninterpreted function; the parameter is a dummy
        else:
            parts.append('%s %s' % (t, n))
    return ', '.join(parts)


if __name__ == '__main__':
    src, hdr, cls = sys.argv[1:4]
    decl, funcs = extract_class(src, hdr, cls)
    sys.stdout.write(render_unit(cls, decl, funcs, None))
    for f in funcs:
        sys.stderr.write('%s hits=%s notes=%s\n' % (f.cname, f.hits, f.notes))
