/* cp_normal_bounded.h -- contract of cp_normal::eval_cen_mom that is NOT discharged deductively: the body converts the symbolic int k
 * to Scalar (pow(sigma,k), factorial(n-1)*n), and CBMC 6.11 emits an ill-typed SMT term for int -> __CPROVER_rational conversions of
 * non-constant ints ("expecting an arithmetic subterm").  The un-weakened contract below is checked by the bounded stand-in only
 * (native twin: every k in 0..20 is hit by the sampler, sigma random), never counted as proved. */
#define CONTRACT_cp_normal__eval_cen_mom_1       REQ(0 <= k && k <= 20 && sigma > 0) ENS_EQ(cp_dfact_sigma(k)) FRAME()
