"""C05 Spalart-Allmaras solutions: units and runner"""
import os
import xtract
from common import SRC
from numeric import Unit, run_numeric, replay_file

# functions the property covers that are NOT discharged deductively (left out of the CONTRACT_ macros on purpose,
# the contract is not weakened): (C name, reason).  The lead wires a bounded stand-in (DESIGN 3.4) for these.
BOUNDED = [
    ('rans_sa__dvt_1', 'd/d eta[nu*fv1(chi)] vs the code form n^3(n^3+4a^3)nu\'/(n^3+a^3)^2, a=cv1/re_tau: needs the inverse-scaling '
                       'identity inv(re^3 q) = inv(re)^3 inv(q) under a differentiation; cvc5/z3/z3-new time out at 300 s (also with nu atomic). '
                       'Its contract is in contracts/sa_bounded.h and is used (replace) by eval_q_u.'),
]


def _calls(cls, src):
    """cname -> member functions it calls (every such call is replaced by the callee's contract: modular proof)"""
    decl, funcs = xtract.extract_class(os.path.join(SRC, src), os.path.join(SRC, 'masa_internal.h'), cls)
    return {f.cname: sorted(set(f.calls)) for f in funcs if f.calls}


def units():
    us = []
    rep = _calls('rans_sa', 'rans_sa.cpp')
    # s() calls du() five times: five replaced calls defeat the solvers, the one-line body of du inlines fine
    rep['rans_sa__s_1'] = [c for c in rep['rans_sa__s_1'] if c != 'rans_sa__du_1']
    us.append(Unit('rans_sa', 'rans_sa.cpp', 'sa.spec.h', defines=['UNIT_rans_sa 1'], replace=rep))
    us.append(Unit('fans_sa_transient_free_shear', 'fans_sa.cpp', 'sa.spec.h', defines=['UNIT_fans_sa_transient_free_shear 1']))
    wb = 'fans_sa_steady_wall_bounded'
    wrep = _calls(wb, 'fans_sa.cpp')      # every evaluator calls update(x,y) first: replaced by update's contract
    us.append(Unit(wb, 'fans_sa.cpp', 'sa.spec.h', defines=['UNIT_fans_sa_steady_wall_bounded 1'], replace=wrep))
    return us


def run(tier, seed):
    return run_numeric('C05', units(), tier, seed, design_ref='4/C05')

replay = replay_file
