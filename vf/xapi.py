#!/usr/bin/env python3
"""xapi -- mechanical extraction of the API layer to C (DESIGN.md 3.1, 4/C07, C15, C16, C17):
  * masa_core.cpp: every template API function (one-line forwarders to the selected object), MasterMS::get_ms,
    verify_pointer_sanity, masa_exit;
  * masa_internal.h: the inline base-class stub bodies of manufactured_solution<Scalar>;
  * cmasa.cpp: every extern "C" wrapper.
Calls that leave the unit become recorded uninterpreted calls (lib/api.h).  The *expected* callee of each function is
generated from the function's own NAME by the documented naming convention -- that table is the specification."""
import re, hashlib
from xtract import tokenize, strip_comments, match_close, match_brace_text, ExtractionBreak, msg_class as _mc


def msg_class(strings):
    c = 1
    for s in strings:
        if 'MASA FATAL ERROR' in s:
            c |= 4
        elif 'MASA ERROR' in s:          # also matches 'SMASA ERROR'
            c |= 2
        elif re.search(r'error', s, re.I):
            c |= 8
    return c


def split_top(s, sep=','):
    parts, depth, cur = [], 0, ''
    for ch in s:
        if ch in '(<[':
            depth += 1
        elif ch in ')>]':
            depth -= 1
        if ch == sep and depth == 0:
            parts.append(cur)
            cur = ''
        else:
            cur += ch
    if cur.strip():
        parts.append(cur)
    return [p.strip() for p in parts]


def classify_param(p, idx):
    """-> (ctype, name, code)  code: s scalar, i int, h opaque handle, p int* (real pointer), d double* (real pointer)"""
    p = re.sub(r'\s+', ' ', p.strip())
    m = re.match(r'^(?:Scalar|double) ?\( ?\* ?(\w*) ?\) ?\( ?(?:Scalar|double) ?\)$', p)
    if m:
        return ('vhandle', m.group(1) or 'a%d' % idx, 'h')
    m = re.match(r'^(?:const )?(Scalar|double|float)(?: (\w+))?$', p)
    if m:
        return ('Sc', m.group(2) or 'a%d' % idx, 's')
    m = re.match(r'^(?:const )?int(?: (\w+))?$', p)
    if m:
        return ('int', m.group(1) or 'a%d' % idx, 'i')
    m = re.match(r'^int ?\* ?(\w+)$', p)
    if m:
        return ('int *', m.group(1), 'p')
    m = re.match(r'^double ?\* ?(\w+)$', p)
    if m:
        return ('Sc *', m.group(1), 'd')
    m = re.match(r'^double (\w+) ?\[ ?\]$', p)
    if m:
        return ('vhandle', m.group(1), 'h')
    m = re.match(r'^(?:const )?char ?\* ?(\w+)$', p)
    if m:
        return ('vhandle', m.group(1), 'h')
    m = re.match(r'^(?:const )?std::string ?[&\*]? ?(\w+)$', p)
    if m:
        return ('vhandle', m.group(1), 'h')
    m = re.match(r'^(?:const )?std::vector ?< ?(?:Scalar|double) ?> ?[&\*]? ?(\w+)$', p)
    if m:
        return ('vhandle', m.group(1), 'h')
    raise ExtractionBreak('unsupported parameter %r' % p)


class AFunc:
    pass


class Calls:
    """registry of recorded uninterpreted callees"""

    def __init__(self):
        self.fids = {}
        self.defs = []

    def use(self, sym, codes, ret, with_obj):
        key = (sym, codes, ret, with_obj)
        if key in self.fids:
            return self.fids[key]
        fid = len(self.fids) + 1
        self.fids[key] = fid
        ptypes = (['vobj'] if with_obj else []) + [{'s': 'Sc', 'i': 'int', 'h': 'vhandle', 'p': 'int *'}[c] for c in codes]
        pn = (['o'] if with_obj else []) + ['a%d' % i for i in range(len(codes))]
        rec = []
        for i, c in enumerate(codes):
            if c == 's':
                rec.append('ghost_ad[%d] = a%d;' % (i, i))
            elif c == 'p':
                rec.append('ghost_ai[%d] = *a%d;' % (i, i))
            else:
                rec.append('ghost_ai[%d] = a%d;' % (i, i))
        uf_pt = [t if t != 'int *' else 'int' for t in ptypes]
        uf_args = [n if t != 'int *' else '*' + n for n, t in zip(pn, ptypes)]
        self.defs.append('%s __CPROVER_uninterpreted_%s(%s);\n#define FID_%s %d\nstatic %s %s(%s)\n{ ghost_ncalls++; ghost_callee = %d; %s %s return __CPROVER_uninterpreted_%s(%s); }' % (
            ret, sym, ', '.join(uf_pt) or 'void', sym, fid, ret, sym, ', '.join('%s %s' % (t, n) for t, n in zip(ptypes, pn)) or 'void',
            fid, 'ghost_obj = o;' if with_obj else '', ' '.join(rec), sym, ', '.join(uf_args)))
        return fid


def arg_ident(toks):
    """identifier at the core of an argument expression such as x, (*f), &fuw, *n"""
    ids = [v for k, v in toks if k == 'id']
    if len(ids) != 1:
        raise ExtractionBreak('argument expression %r is not a plain parameter' % ' '.join(v for k, v in toks))
    return ids[0]


def split_args(toks):
    args, depth, cur = [], 0, []
    for t in toks:
        if t[1] in ('(', '['):
            depth += 1
        elif t[1] in (')', ']'):
            depth -= 1
        if t[1] == ',' and depth == 0:
            args.append(cur)
            cur = []
        else:
            cur.append(t)
    if cur:
        args.append(cur)
    return args


def render(toks):
    text = ''
    for k, v in toks:
        if k == 'nl':
            text = text.rstrip(' ') + '\n'
        else:
            text += v + ' '
    return text


def rewrite_output(toks):
    out, i, n = [], 0, 0
    while i < len(toks):
        if toks[i][1] == 'std' and toks[i + 1][1] == '::' and toks[i + 2][1] in ('cout', 'cerr'):
            j = i
            strs = []
            while toks[j][1] != ';':
                if toks[j][0] == 'str':
                    strs.append(toks[j][1])
                j += 1
            out += [('id', 'GHOST_MSG'), ('op', '('), ('num', str(msg_class(strs))), ('op', ')'), ('op', ';')]
            i = j + 1
            n += 1
            continue
        out.append(toks[i])
        i += 1
    return out, n


# ------------------------------------------------------------------ masa_core.cpp

FWD_RE = re.compile(r'template\s*<\s*typename\s+Scalar\s*>\s*(?P<ret>[\w\s\*]+?)\s+MASA::(?P<name>\w+)\s*\(')


REGISTRY_BINDING = [
    # must-fire facts about the two registry objects (C12: the double and long double registries are independent): one object per scalar type,
    # the generic accessor returns the double one, its <long double> specialisation the long double one.  Each is a rule of the table:
    # if the text no longer has this shape the forwarder contracts (which speak about "the" registry of the call's scalar type) do not apply.
    (r'MasterMS<double>\s+masa_master_double\s*;', 'MasterMS<double> masa_master_double;'),
    (r'MasterMS<long double>\s+masa_master_longdouble\s*;', 'MasterMS<long double> masa_master_longdouble;'),
    (r'template\s*<typename Scalar>\s*MasterMS<Scalar>&\s+masa_master\(\)\s*\{\s*return\s+masa_master_double\s*;\s*\}', 'generic masa_master() returns masa_master_double'),
    (r'template\s*<>\s*MasterMS<long double>&\s+masa_master\(\)\s*\{\s*return\s+masa_master_longdouble\s*;\s*\}', 'masa_master<long double>() returns masa_master_longdouble'),
]


def extract_core(src_text, calls):
    s = strip_comments(src_text)
    for pat, what in REGISTRY_BINDING:
        if len(re.findall(pat, s)) != 1:
            raise ExtractionBreak('registry binding changed: expected exactly one `%s` in masa_core.cpp' % what)
    funcs = []
    for m in FWD_RE.finditer(s):
        i = m.end()
        depth = 1
        while depth:
            depth += {'(': 1, ')': -1}.get(s[i], 0)
            i += 1
        argtext = s[m.end():i - 1]
        j = i
        while s[j] in ' \t\r\n':
            j += 1
        if s[j] != '{':
            continue
        end = match_brace_text(s, j + 1)
        body = s[j + 1:end - 1]
        if 'masa_master' not in body:
            continue            # masa_printid, masa_test_default, ...: not forwarders (registry unit / out of scope)
        f = AFunc()
        f.name, f.ret_src = m.group('name'), m.group('ret').strip()
        f.params = [classify_param(p, k) for k, p in enumerate(split_top(argtext))] if argtext.strip() else []
        f.codes = ''.join(c for _, _, c in f.params)
        f.cname = 'api__%s_%s' % (f.name, f.codes or 'v')
        f.ret = {'Scalar': 'Sc', 'int': 'int', 'void': 'void'}.get(f.ret_src)
        if f.ret is None:
            raise ExtractionBreak('%s: return type %r' % (f.name, f.ret_src))
        f.sha = hashlib.sha256(body.encode()).hexdigest()
        f.body_src = body
        toks = [t for t in tokenize(body)]
        ptype = {n: c for _, n, c in f.params}
        out = []
        k = 0
        f.callee = None
        while k < len(toks):
            v = [t[1] for t in toks[k:k + 12]]
            if v[:6] == ['masa_master', '<', 'Scalar', '>', '(', ')'] and v[6] == '.':
                if v[7] == 'get_ms' and v[8:11] == ['(', ')', '.']:
                    meth = toks[k + 11][1]
                    p0 = k + 12
                    if toks[p0][1] != '(':
                        raise ExtractionBreak('%s: call shape' % f.name)
                    p1 = match_close(toks, p0)
                    args = split_args(toks[p0 + 1:p1])
                    ids = [arg_ident(a) for a in args]
                    for a in ids:
                        if a not in ptype:
                            raise ExtractionBreak('%s: argument %s is not a parameter' % (f.name, a))
                    codes = ''.join(ptype[a] for a in ids)
                    sym = 'ms_%s_%s' % (meth, codes or 'v')
                    rty = 'Sc' if f.ret == 'Sc' else 'int'
                    calls.use(sym, codes, rty, True)
                    f.callee = (meth, codes, ids, rty, True)
                    out += [('id', sym), ('op', '('), ('id', 'MasterMS__get_ms'), ('op', '('), ('op', ')')]
                    for a in ids:
                        out += [('op', ','), ('id', a)]
                    out.append(('op', ')'))
                    k = p1 + 1
                    continue
                else:
                    meth = toks[k + 7][1]          # select_mms / init_mms / list_mms on the registry itself
                    p0 = k + 8
                    p1 = match_close(toks, p0)
                    args = split_args(toks[p0 + 1:p1])
                    ids = [arg_ident(a) for a in args]
                    codes = ''.join(ptype[a] for a in ids)
                    sym = 'reg_%s_%s' % (meth, codes or 'v')
                    calls.use(sym, codes, 'int', False)
                    f.callee = (meth, codes, ids, 'int', False)
                    out += [('id', sym), ('op', '(')]
                    for n_, a in enumerate(ids):
                        out += ([('op', ',')] if n_ else []) + [('id', a)]
                    out.append(('op', ')'))
                    k = p1 + 1
                    continue
            out.append(toks[k])
            k += 1
        if f.callee is None:
            raise ExtractionBreak('%s: no forwarding call recognised' % f.name)
        for kk, vv in out:
            if kk == 'op' and vv in ('::', '<<', '.', '->') or kk == 'str':
                raise ExtractionBreak('%s: token %r not covered by the rule table' % (f.name, vv))
        f.body_c = render(out)
        funcs.append(f)
    return funcs


def vet_ids(fname, toks, allowed):
    """every identifier of a rewritten helper body must belong to the contract vocabulary: state the contracts do not know about (a new
    member, a file-scope flag) cannot be given a meaning mechanically -- it needs a contract of its own, so it is an extraction break"""
    for k, v in toks:
        if k == 'id' and v not in allowed:
            raise ExtractionBreak('%s refers to %r, which is not in the vocabulary of its contract (new state or a new callee needs a contract first)' % (fname, v))


def extract_master_helpers(src_text):
    """MasterMS::get_ms (non-const), verify_pointer_sanity, masa_exit (both settings of MASA_EXCEPTIONS)"""
    s = strip_comments(src_text)
    o = []
    info = {}
    # get_ms: inline in the class
    m = re.search(r'manufactured_solution<Scalar>&\s*get_ms\(\)\s*\{', s)
    if not m:
        raise ExtractionBreak('MasterMS::get_ms not found')
    end = match_brace_text(s, m.end())
    body = s[m.end():end - 1]
    info['get_ms'] = hashlib.sha256(body.encode()).hexdigest()
    toks = tokenize(body)
    out = []
    k = 0
    while k < len(toks):
        if toks[k][1] == '*' and toks[k + 1][1] == '_master_pointer':
            out += [('id', 'MS_DEREF'), ('op', '('), ('id', '_master_pointer'), ('op', ')')]
            k += 2
            continue
        if toks[k][1] == 'verify_pointer_sanity':
            out.append(('id', 'MasterMS__verify_pointer_sanity'))
            k += 1
            continue
        out.append(toks[k])
        k += 1
    vet_ids('MasterMS::get_ms', out, {'MS_DEREF', '_master_pointer', 'MasterMS__verify_pointer_sanity', 'return'})
    o.append('void MasterMS__verify_pointer_sanity(void);\n/* MasterMS::get_ms sha256=%s */\nvobj MasterMS__get_ms(void)\nCONTRACT_MasterMS__get_ms\n{%s}\n' % (info['get_ms'], render(out)))
    # verify_pointer_sanity
    m = re.search(r'void\s+MasterMS<Scalar>::verify_pointer_sanity\(\)\s*const\s*\{', s)
    if not m:
        raise ExtractionBreak('verify_pointer_sanity not found')
    end = match_brace_text(s, m.end())
    body = s[m.end():end - 1]
    info['verify_pointer_sanity'] = hashlib.sha256(body.encode()).hexdigest()
    toks, n = rewrite_output(tokenize(body))
    for idx, (kk, vv) in enumerate(toks):
        if vv == 'masa_exit':
            toks[idx] = ('id', 'GHOST_EXIT')
    vet_ids('MasterMS::verify_pointer_sanity', toks, {'_master_pointer', 'GHOST_EXIT', 'GHOST_MSG', 'if', 'else', 'return', 'NULL'})
    o.append('/* MasterMS::verify_pointer_sanity sha256=%s */\nvoid MasterMS__verify_pointer_sanity(void)\nCONTRACT_MasterMS__verify_pointer_sanity\n{%s}\n' % (
        info['verify_pointer_sanity'], render(toks)))
    # masa_exit
    m = re.search(r'void\s+MASA::masa_exit\(int\s+(\w+)\)\s*\{', s)
    if not m:
        raise ExtractionBreak('masa_exit not found')
    end = match_brace_text(s, m.end())
    body = s[m.end():end - 1]
    info['masa_exit'] = hashlib.sha256(body.encode()).hexdigest()
    mm = re.search(r'#ifdef\s+MASA_EXCEPTIONS(.*?)#else(.*?)#endif', body, re.S)
    if not mm:
        raise ExtractionBreak('masa_exit: #ifdef MASA_EXCEPTIONS structure changed')
    pre, post = body[:mm.start()], body[mm.end():]
    for tag, part in (('exc', mm.group(1)), ('noexc', mm.group(2))):
        toks, n = rewrite_output(tokenize(pre + part + post))
        out = []
        k = 0
        while k < len(toks):
            v = toks[k][1]
            if v == 'throw' and toks[k + 1][1] == '(':
                out.append(('id', 'GHOST_THROW'))
                k += 1
                continue
            if v == 'exit' and toks[k + 1][1] == '(':
                out.append(('id', 'GHOST_PROCESS_EXIT'))
                k += 1
                continue
            out.append(toks[k])
            k += 1
        o.append('/* MASA::masa_exit (%s) sha256=%s */\nvoid masa_exit_%s(int %s)\nCONTRACT_masa_exit_%s\n{%s}\n' % (
            tag, info['masa_exit'], tag, m.group(1), tag, render(out)))
    return '\n'.join(o), info


# ------------------------------------------------------------------ masa_internal.h stubs

def extract_stubs(header_text):
    h = strip_comments(header_text)
    m = re.search(r'\bclass\s+manufactured_solution\b[^;{]*\{', h)
    end = match_brace_text(h, m.end())
    body = h[m.end():end - 1]
    stubs = []
    for sm in re.finditer(r'virtual\s+Scalar\s+(\w+)\s*\(', body):
        i = sm.end()
        depth = 1
        while depth:
            depth += {'(': 1, ')': -1}.get(body[i], 0)
            i += 1
        argtext = body[sm.end():i - 1]
        j = i
        while body[j] in ' \t\r\n':
            j += 1
        if body[j] != '{':
            continue         # pure virtual / declaration only
        e2 = match_brace_text(body, j + 1)
        sb = body[j + 1:e2 - 1]
        f = AFunc()
        f.name = sm.group(1)
        f.params = [classify_param(p, k) for k, p in enumerate(split_top(argtext))] if argtext.strip() else []
        f.codes = ''.join(c for _, _, c in f.params)
        f.cname = 'stub__%s_%s' % (f.name, f.codes or 'v')
        f.ret = 'Sc'
        f.sha = hashlib.sha256(sb.encode()).hexdigest()
        toks, n = rewrite_output(tokenize(sb))
        for kk, vv in toks:
            if kk == 'op' and vv in ('::', '<<', '.', '->') or kk == 'str':
                raise ExtractionBreak('%s: token %r not covered by the rule table' % (f.cname, vv))
        # a call of a virtual member from a default body is dispatched on the dynamic type: its target is unknown here, so its result and its
        # messages are arbitrary (rule VD).  (No default body of the pinned tree contains one; a stub that forwards to a sibling overload does.)
        vnames = set(re.findall(r'virtual\s+\w+\s+(\w+)\s*\(', body))
        out, k = [], 0
        while k < len(toks):
            if toks[k][0] == 'id' and toks[k][1] in vnames and k + 1 < len(toks) and toks[k + 1][1] == '(' and (k == 0 or toks[k - 1][1] not in ('.', '->')):
                pe = match_close(toks, k + 1)
                out += [('id', 'VF_VIRTUAL_DISPATCH'), ('op', '('), ('op', ')')]
                k = pe + 1
                continue
            out.append(toks[k])
            k += 1
        toks = out
        f.body_c = render(toks)
        f.msgs = n
        stubs.append(f)
    if len(stubs) < 100:
        raise ExtractionBreak('only %d base-class stubs found (expected ~150)' % len(stubs))
    return stubs


# ------------------------------------------------------------------ cmasa.cpp

def extract_cwrappers(src_text, calls):
    s = strip_comments(src_text)
    funcs, skipped = [], []
    for m in re.finditer(r'extern\s+"C"\s+(?P<ret>[\w\s\*]+?)\s+(?P<name>\w+)\s*\(', s):
        i = m.end()
        depth = 1
        while depth:
            depth += {'(': 1, ')': -1}.get(s[i], 0)
            i += 1
        argtext = s[m.end():i - 1]
        j = i
        while s[j] in ' \t\r\n':
            j += 1
        if s[j] != '{':
            continue
        end = match_brace_text(s, j + 1)
        body = s[j + 1:end - 1]
        f = AFunc()
        f.name, f.ret_src = m.group('name'), m.group('ret').strip()
        f.sha = hashlib.sha256(body.encode()).hexdigest()
        f.body_src = body
        f.ret = {'double': 'Sc', 'int': 'int', 'void': 'void'}.get(f.ret_src)
        try:
            if f.ret is None:
                raise ExtractionBreak('return type %r' % f.ret_src)
            f.params = [classify_param(p, k) for k, p in enumerate(split_top(argtext))] if argtext.strip() else []
            f.codes = ''.join(c for _, _, c in f.params)
            f.cname = 'c__%s' % f.name
            ptype = {n: c for _, n, c in f.params}
            toks = tokenize(body)
            out = []
            k = 0
            f.callees = []
            locals_h = {}
            while k < len(toks):
                v = [t[1] for t in toks[k:k + 10]]
                # std::string NAME(ARG);  -> vhandle NAME = STR_OF(ARG);
                if v[:3] == ['std', '::', 'string'] and toks[k + 3][0] == 'id' and v[4] == '(':
                    p1 = match_close(toks, k + 4)
                    a = arg_ident(toks[k + 5:p1])
                    out += [('id', 'vhandle'), toks[k + 3], ('op', '='), ('id', 'STR_OF'), ('op', '('), ('id', a), ('op', ')')]
                    locals_h[toks[k + 3][1]] = ('str_of', a)
                    ptype[toks[k + 3][1]] = 'h'
                    k = p1 + 1
                    continue
                # static std::vector<double> NAME ;     -> vhandle NAME = VEC_STATIC ;   a vector that survives between calls: its length on entry
                #                                          (SVEC_LEN) is whatever an earlier call left
                if v[0] == 'static' and v[1:7] == ['std', '::', 'vector', '<', 'double', '>'] and toks[k + 7][0] == 'id' and toks[k + 8][1] == ';':
                    out += [('id', 'vhandle'), toks[k + 7], ('op', '='), ('id', 'VEC_STATIC')]
                    ptype[toks[k + 7][1]] = 'h'
                    f.vec_static = getattr(f, 'vec_static', []) + [toks[k + 7][1]]
                    k += 8
                    continue
                if toks[k][0] == 'id' and toks[k][1] in getattr(f, 'vec_static', []) and v[1:5] == ['.', 'size', '(', ')']:
                    out += [('id', 'SVEC_LEN')]
                    k += 5
                    continue
                if toks[k][0] == 'id' and toks[k][1] in getattr(f, 'vec_static', []) and v[1:4] == ['.', 'resize', '(']:
                    p1 = match_close(toks, k + 3)
                    out += [('id', 'SVEC_LEN'), ('op', '='), ('op', '(')] + toks[k + 4:p1] + [('op', ')')]
                    k = p1 + 1
                    continue
                # std::copy(&A[0], &A[E], NAME.begin())  -> NAME = VEC_COPYIN(SVEC_LEN, A, E)   (NAME keeps its length)
                if v[:4] == ['std', '::', 'copy', '(']:
                    p1 = match_close(toks, k + 3)
                    a = split_args(toks[k + 4:p1])
                    av = [[t_[1] for t_ in x] for x in a]
                    if len(a) == 3 and av[0][0] == '&' and av[0][2:] == ['[', '0', ']'] and av[1][:3] == ['&', av[0][1], '['] and av[1][-1] == ']' \
                            and av[2][0] in getattr(f, 'vec_static', []) and av[2][1:] == ['.', 'begin', '(', ')']:
                        out += [('id', av[2][0]), ('op', '='), ('id', 'VEC_COPYIN'), ('op', '('), ('id', 'SVEC_LEN'), ('op', ','), ('id', av[0][1]), ('op', ',')] + a[1][3:-1] + [('op', ')')]
                        k = p1 + 1
                        continue
                    raise ExtractionBreak('std::copy shape')
                # std::vector<double> NAME ;            -> vhandle NAME = VEC_LOCAL ;
                if v[:6] == ['std', '::', 'vector', '<', 'double', '>'] and toks[k + 6][0] == 'id' and toks[k + 7][1] == ';':
                    out += [('id', 'vhandle'), toks[k + 6], ('op', '='), ('id', 'VEC_LOCAL')]
                    ptype[toks[k + 6][1]] = 'h'
                    f.vec_locals = getattr(f, 'vec_locals', []) + [toks[k + 6][1]]
                    k += 7
                    continue
                # std::vector<double> NAME(&A[0],&A[*N]); -> vhandle NAME = VEC_FROM(A, *N);
                if v[:6] == ['std', '::', 'vector', '<', 'double', '>'] and toks[k + 6][0] == 'id' and toks[k + 7][1] == '(':
                    p1 = match_close(toks, k + 7)
                    inner = [t[1] for t in toks[k + 8:p1]]
                    if len(inner) == 12 and inner[0] == '&' and inner[2:6] == ['[', '0', ']', ','] and inner[6] == '&' and inner[7] == inner[1] \
                            and inner[8] == '[' and inner[9] == '*' and inner[11] == ']':
                        out += [('id', 'vhandle'), toks[k + 6], ('op', '='), ('id', 'VEC_FROM'), ('op', '('), ('id', inner[1]), ('op', ','),
                                ('op', '*'), ('id', inner[10]), ('op', ')')]
                        ptype[toks[k + 6][1]] = 'h'
                        f.vec_from = (toks[k + 6][1], inner[1], inner[10])
                        k = p1 + 1
                        continue
                    raise ExtractionBreak('std::vector constructor shape')
                # NAME.size() / NAME[expr] on a local vector
                if toks[k][0] == 'id' and toks[k][1] in getattr(f, 'vec_locals', []) and v[1] == '.' and v[2] == 'size' and v[3:5] == ['(', ')']:
                    out += [('id', 'VEC_SIZE'), ('op', '('), toks[k], ('op', ')')]
                    k += 5
                    continue
                if toks[k][0] == 'id' and toks[k][1] in getattr(f, 'vec_locals', []) and v[1] == '[':
                    p1 = match_close(toks, k + 1, '[', ']')
                    out += [('id', 'VEC_AT'), ('op', '('), toks[k], ('op', ',')] + toks[k + 2:p1] + [('op', ')')]
                    k = p1 + 1
                    continue
                # int(expr) functional cast
                if toks[k][1] == 'int' and v[1] == '(' and (not out or out[-1][1] not in ('(',) or True) and (k == 0 or toks[k - 1][1] not in ('unsigned',)) \
                        and not (k + 2 < len(toks) and toks[k + 1][0] == 'id'):
                    out += [('op', '('), ('id', 'int'), ('op', ')')]
                    k += 1
                    continue
                # [std::]strncpy(DST, SRC.c_str(), N)  -> BUF_COPYN(DST, SRC, N)   with SRC.size()/length() -> STRLEN(SRC)
                if toks[k][1] == 'strncpy' and v[1] == '(':
                    p1 = match_close(toks, k + 1)
                    inner = [t[1] for t in toks[k + 2:p1]]
                    if len(inner) >= 9 and inner[1] == ',' and inner[3:7] == ['.', 'c_str', '(', ')'] and inner[7] == ',':
                        n_ = ' '.join(inner[8:])
                        n_ = re.sub(r'(\w+) \. (?:size|length) \( \)', r'STRLEN ( \1 )', n_)
                        if '.' in n_.split():
                            raise ExtractionBreak('strncpy length expression %r' % n_)
                        if out and out[-1][1] == '::':
                            out = out[:-2]
                        out += [('id', 'BUF_COPYN'), ('op', '('), ('id', inner[0]), ('op', ','), ('id', inner[2]), ('op', ',')] + [('id', w) for w in n_.split()] + [('op', ')')]
                        k = p1 + 1
                        continue
                    raise ExtractionBreak('strncpy shape')
                # [std::]strcpy(DST, SRC.c_str())  -> BUF_COPY(DST, SRC)
                if toks[k][1] == 'strcpy' and v[1] == '(':
                    p1 = match_close(toks, k + 1)
                    inner = [t[1] for t in toks[k + 2:p1]]
                    if len(inner) == 7 and inner[1] == ',' and inner[3:] == ['.', 'c_str', '(', ')']:
                        if out and out[-1][1] == '::':
                            out = out[:-2]
                        out += [('id', 'BUF_COPY'), ('op', '('), ('id', inner[0]), ('op', ','), ('id', inner[2]), ('op', ')')]
                        k = p1 + 1
                        continue
                    raise ExtractionBreak('strcpy shape')
                if toks[k][0] == 'id' and v[1:4] == ['<', 'double', '>'] and v[4] == '(' and toks[k][1].startswith('masa_') or \
                        (toks[k][0] == 'id' and toks[k][1] == 'pass_func' and v[1:4] == ['<', 'double', '>']):
                    name = toks[k][1]
                    p1 = match_close(toks, k + 4)
                    args = split_args(toks[k + 5:p1])
                    ids = []
                    for a in args:
                        av = [t[1] for t in a]
                        if av and av[0] == '&' and len(av) == 2:
                            ids.append(('addr', av[1]))
                        else:
                            ids.append(('val', arg_ident(a)))
                    for kind, a in ids:
                        if a not in ptype:
                            raise ExtractionBreak('argument %s is neither a parameter nor a converted local' % a)
                    codes = ''.join('h' if ptype[a] in ('p',) and False else ptype[a] for _, a in ids)
                    codes = codes.replace('p', 'h') if False else codes
                    sym = 'cxx_%s_%s' % (name, codes or 'v')
                    rty = 'Sc' if f.ret == 'Sc' else 'int'
                    calls.use(sym, codes, rty, False)
                    f.callees.append((name, codes, ids, rty))
                    out += [('id', sym), ('op', '(')]
                    for n_, (kind, a) in enumerate(ids):
                        out += ([('op', ',')] if n_ else []) + [('id', a)]
                    out.append(('op', ')'))
                    k = p1 + 1
                    continue
                out.append(toks[k])
                k += 1
            has_vec = bool(getattr(f, 'vec_locals', []))
            if has_vec:
                from xstl import splice_loop_contracts
                out, f.nloops = splice_loop_contracts(out, f.cname)
            for kk, vv in out:
                if kk == 'op' and vv in ('::', '<<', '.', '->', '&') or kk == 'str' or (kk == 'op' and vv == '[' and not has_vec):
                    raise ExtractionBreak('token %r not covered by the rule table' % vv)
                if kk == 'id' and vv in ('std', 'exit', 'fabs', 'while', 'new') or (kk == 'id' and vv == 'for' and not has_vec):
                    raise ExtractionBreak('construct %r not covered by the rule table' % vv)
            if len(f.callees) != 1:
                raise ExtractionBreak('%d template calls (expected exactly 1)' % len(f.callees))
            f.locals_h = locals_h
            f.body_c = render(out)
            funcs.append(f)
        except ExtractionBreak as e:
            skipped.append((f.name, str(e)))
    return funcs, skipped


def sig(f):
    return ', '.join('%s %s' % (t, n) for t, n, c in f.params) or 'void'
